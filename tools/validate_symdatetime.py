#!/usr/bin/env python3
"""differential validation of verifx.symdatetime against CPython's datetime
(both the concrete-int branch and the z3 branch evaluated on constants)"""
import sys, os, random, datetime as dt
sys.path.insert(0, os.path.dirname(os.path.dirname(os.path.abspath(__file__))))
import z3
from verifx import symx, symdatetime as sd

def ev(x):
    if isinstance(x, symx.Sym):
        v = z3.simplify(x.e)
        return v.as_long() if z3.is_int_value(v) else (True if z3.is_true(v) else False if z3.is_false(v) else v)
    return x

def main(n=3000, seed=0):
    rng = random.Random(seed)
    ctx = symx.Ctx(); symx.CUR = ctx
    bad = 0
    days = [dt.date(1900, 1, 1) + dt.timedelta(days=rng.randrange(0, 73415)) for _ in range(n)]
    days += [dt.date(y, 12, 31) for y in range(1899, 2101)] + [dt.date(y, 1, 1) for y in range(1899, 2101)]
    days += [dt.date(y, 2, 29) for y in range(1900, 2101) if (y % 4 == 0 and (y % 100 or y % 400 == 0))]
    days += [dt.date(y, 3, 1) for y in range(1899, 2101)]
    for mode in (None, (1898, 2102)):
      sd.YEAR_RANGE = mode
      for d in days:
        o = d.toordinal(); y, j = d.year, d.timetuple().tm_yday
        for mk in (lambda v: v, lambda v: symx.SymInt(z3.IntVal(v))):
            ry, rj = sd.ord2yj(mk(o))
            if (ev(ry), ev(rj)) != (y, j): bad += 1; print('ord2yj', d, ev(ry), ev(rj))
            if ev(sd.ymd2ord(mk(y), mk(d.month), mk(d.day))) != o: bad += 1; print('ymd2ord', d)
            m_, d_ = sd.yj2md(mk(y), mk(j))
            if (ev(m_), ev(d_)) != (d.month, d.day): bad += 1; print('yj2md', d, ev(m_), ev(d_))
            t = sd.datetime(mk(y), mk(d.month), mk(d.day), 13, 7, 9)
            if ev(t.us) != sd.instant_us(y, d.month, d.day, 13, 7, 9): bad += 1; print('instant', d)
    sd.YEAR_RANGE = None
    # timedelta rounding (half-even) vs CPython on exactly representable floats
    for _ in range(2000):
        x = rng.randrange(-10**9, 10**9) / 2.0   # half microseconds
        a = sd.timedelta(microseconds=x).us; b = dt.timedelta(microseconds=x)
        if a != (b.days * 86400 + b.seconds) * 10**6 + b.microseconds: bad += 1; print('td', x, a, b)
    print('validated', len(days), 'dates; mismatches', bad)
    return 1 if bad else 0

if __name__ == '__main__':
    sys.exit(main())
