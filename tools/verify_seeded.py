#!/usr/bin/env python3
"""Confirms every seeded change under /verif/seeded/<id>/ against the current
/repo HEAD and records what was run in meta.json:
  - patch applies; test-suite outcome set identical to the unpatched tree;
  - demo exits 0 without the change and non-zero with it;
  - the matching quick check: exit code and first VIOLATION line.
Each change is applied to its own scratch worktree of /repo under /tmp/vs
(removed afterwards); the check is pointed at it with VERIF_REPO_ROOT (twin and
replay both use that tree) and writes its evidence to the scratch directory
(VERIF_OUT), so /repo and the committed evidence are never touched.

usage: tools/verify_seeded.py [-j N] [ids...]"""
import json
import os
import shutil
import subprocess
import sys
import time
from concurrent.futures import ThreadPoolExecutor
V = '/verif'
R = '/repo'
PY = '/venv/bin/python'
S = os.environ.get('VS_DIR', '/tmp/vs')
NEEDS = {}
if os.path.exists(os.path.join(V, 'seeded', 'needs.json')):
    NEEDS = json.load(open(os.path.join(V, 'seeded', 'needs.json')))


def sh(cmd, timeout=3000, cwd=None, env=None):
    p = subprocess.run(cmd, shell=True, capture_output=True, text=True,
                       timeout=timeout, cwd=cwd, env=env)
    return p.returncode, p.stdout + p.stderr


def outcomes(root):
    env = dict(os.environ, PYTHONPATH=root + '/src')
    rc, out = sh('cd %s && %s -m pytest -q -p no:cacheprovider --timeout=900 '
                 '-rA 2>&1 | grep -E "^(PASSED|FAILED|ERROR|SKIPPED)" | '
                 'sed "s/ - .*//" | sort' % (root, PY), env=env)
    return out


def one(sid, base, jobs):
    d = os.path.join(V, 'seeded', sid)
    prop = sid.split('-')[0]
    wt = os.path.join(S, sid)
    sh('git -C %s worktree remove --force %s' % (R, wt))
    rc, out = sh('git -C %s worktree add --detach %s HEAD' % (R, wt))
    meta = {'id': sid, 'breaks_property': prop,
            'confirmed_at': time.strftime('%Y-%m-%dT%H:%M:%SZ', time.gmtime()),
            'repo_head': sh('git -C %s rev-parse --short HEAD' % R)[1].strip()}
    notes = ''
    if os.path.exists(os.path.join(d, 'notes.md')):
        notes = open(os.path.join(d, 'notes.md')).read()
    meta['needs_to_manifest'] = NEEDS.get(
        sid, notes.strip().split('\n')[0][:300])
    try:
        env = dict(os.environ, PYTHONPATH=wt + '/src')
        rc0, _ = sh('%s -W ignore %s/demo.py' % (PY, d), env=env, cwd=wt)
        rc, out = sh('git -C %s apply %s/patch.diff' % (wt, d))
        meta['patch_applies'] = rc == 0
        if rc == 0:
            rc1, _ = sh('%s -W ignore %s/demo.py' % (PY, d), env=env, cwd=wt)
            after = outcomes(wt)
            meta['tests_outcome_set_unchanged'] = after == base
            meta['tests'] = '%d passed / %d failed' % (
                after.count('PASSED'), after.count('FAILED'))
            cenv = dict(os.environ, VERIF_REPO_ROOT=wt,
                        VERIF_OUT=os.path.join(wt, '.verif_out'),
                        VERIF_JOBS=str(jobs))
            rcq, outq = sh('cd %s && ./run %s quick' % (V, prop),
                           timeout=3000, env=cenv)
            viol = [x for x in outq.split('\n') if x.startswith('VIOLATION')]
            nxt = [x.strip() for x in outq.split('\n')
                   if x.startswith('  obligation=')]
            inc = [x.strip() for x in outq.split('\n')
                   if x.startswith('INCONCLUSIVE')]
            meta['check'] = {'cmd': 'VERIF_REPO_ROOT=<patched tree> ./run %s '
                                    'quick' % prop, 'exit': rcq,
                             'violations': len(viol),
                             'first': (nxt[0][:300] if nxt else None)}
            if rcq not in (0, 1):
                meta['check']['inconclusive'] = inc[:3] or outq[-300:]
            meta['caught_by_quick_check'] = rcq == 1
            meta['demo'] = {'exit_without_change': rc0,
                            'exit_with_change': rc1}
    finally:
        sh('git -C %s worktree remove --force %s' % (R, wt))
        shutil.rmtree(wt, ignore_errors=True)
    meta['what_was_run'] = [
        'scratch worktree of /repo HEAD; demo.py before and after '
        '`git apply patch.diff` (PYTHONPATH=<tree>/src /venv/bin/python '
        '-W ignore demo.py)',
        '/venv/bin/python -m pytest -q -rA in the patched tree (outcome set '
        'compared with the unpatched tree)',
        'VERIF_REPO_ROOT=<patched tree> ./run %s quick' % prop]
    json.dump(meta, open(os.path.join(d, 'meta.json'), 'w'), indent=1)
    print(sid, meta.get('demo'), meta.get('tests_outcome_set_unchanged'),
          meta.get('check', {}).get('exit'), flush=True)


def main(argv):
    par = 2
    if argv and argv[0] == '-j':
        par = int(argv[1])
        argv = argv[2:]
    only = argv or None
    os.makedirs(S, exist_ok=True)
    base_wt = os.path.join(S, 'base')
    sh('git -C %s worktree remove --force %s' % (R, base_wt))
    sh('git -C %s worktree add --detach %s HEAD' % (R, base_wt))
    base = outcomes(base_wt)
    sh('git -C %s worktree remove --force %s' % (R, base_wt))
    ids = sorted(x for x in os.listdir(os.path.join(V, 'seeded'))
                 if os.path.isdir(os.path.join(V, 'seeded', x)))
    if only:
        ids = [i for i in ids if i in only or i.split('-')[0] in only]
    jobs = max(2, 12 // par)
    with ThreadPoolExecutor(par) as ex:
        list(ex.map(lambda s: one(s, base, jobs), ids))
    sh('git -C %s worktree prune' % R)
    shutil.rmtree(S, ignore_errors=True)


if __name__ == '__main__':
    main(sys.argv[1:])
