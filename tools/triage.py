#!/usr/bin/env python3
"""group the confirmed violations / mismatches / errors of an evidence file"""
import json, collections, re, sys
ev = json.load(open('evidence/%s.json' % sys.argv[1]))
g = collections.Counter(); ex = {}
for r in ev['coverage']['per_obligation']:
    nm = re.sub(r'\|pin[^\]]*', '', r['name'])
    for kind in ('confirmed', 'known'):
        for c in r.get(kind, []):
            key = (kind, nm, c['label'], c.get('real_label'))
            g[key] += 1; ex.setdefault(key, (c['inputs'], c.get('observed')))
    for m in r.get('mismatch', []):
        key = ('MISMATCH', nm, m.get('label'), str(m.get('why'))[:200]); g[key] += 1; ex.setdefault(key, (m.get('inputs'), m.get('real', {}).get('violations') if isinstance(m.get('real'), dict) else None))
    for e in r.get('errors', []):
        key = ('ERR', nm, e[-300:]); g[key] += 1
    if r.get('unknown_claims') or r.get('truncated'):
        g[('INCONCL', nm, r.get('unknown_claims'), r.get('truncated'), r.get('unconfirmed_candidates'))] += 1
lim = int(sys.argv[2]) if len(sys.argv) > 2 else 40
for k, v in sorted(g.items(), key=str)[:lim]:
    e = ex.get(k)
    ins = None
    if e and e[0]:
        ins = {a: (b['float'] if isinstance(b, dict) and 'float' in b else b) for a, b in e[0].items() if not a.startswith('d_')}
    print(v, k, ins, (str(e[1])[:200] if e else ''))
print('claims', ev['coverage']['obligations'], 'discharged', ev['coverage']['discharged'])
