#!/bin/sh
# usage: tools/try_seeded.sh <seed-dir> <PROP> [tier] [extra args for ./run]
# applies the seeded change to a scratch worktree of /repo, runs the check on
# it (twin and replay both use that tree), removes the worktree
d=$(cd "$1" && pwd); prop=$2; tier=${3:-quick}; shift; shift; [ $# -gt 0 ] && shift
wt=/tmp/vs_try/$(basename "$d").$$
mkdir -p /tmp/vs_try
git -C /repo worktree add -q --detach "$wt" HEAD || exit 3
git -C "$wt" apply "$d/patch.diff" || { git -C /repo worktree remove --force "$wt"; exit 3; }
cd /verif && VERIF_REPO_ROOT="$wt" VERIF_OUT="$wt/.verif_out" ./run "$prop" "$tier" "$@"
rc=$?
git -C /repo worktree remove --force "$wt"; git -C /repo worktree prune
echo "exit=$rc"
