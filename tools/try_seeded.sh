#!/bin/sh
# usage: tools/try_seeded.sh <seeded-dir-name> <PROP> [tier] ; applies the seeded change to /repo, runs the check, reverts
cd /verif
S=seeded/$1; P=$2; T=${3:-quick}
git -C /repo apply /verif/$S/patch.diff || { echo "patch does not apply"; exit 2; }
./run $P $T > /tmp/seeded_$1.log 2>&1; rc=$?
git -C /repo checkout -- .
echo "seed=$1 prop=$P tier=$T exit=$rc"; grep -c '^VIOLATION' /tmp/seeded_$1.log; grep -m3 -A1 '^VIOLATION\|INCONCLUSIVE' /tmp/seeded_$1.log | cut -c1-300
