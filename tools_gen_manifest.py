#!/usr/bin/env python3
"""regenerates MANIFEST.json from checks/*.py metadata (MANIFEST dict in each check module) -- run by hand, output committed"""
import json, os, re, sys, importlib
sys.path.insert(0, os.path.dirname(os.path.abspath(__file__)))
props = [json.loads(l) for l in open('properties.jsonl')]
checks = []
na = []
PENDING = json.load(open('not_applicable.json'))
for p in props:
    pid = p['id']
    path = 'checks/%s.py' % pid.lower()
    meta = None
    if os.path.exists(path):
        src = open(path).read()
        m = re.search(r'^MANIFEST = (\{.*?^\})', src, re.S | re.M)
        if m:
            meta = eval(m.group(1))
    if meta and not meta.get('disabled'):
        checks.append({
            'property_id': pid,
            'quick_cmd': './run %s quick' % pid,
            'thorough_cmd': './run %s thorough' % pid,
            'evidence_file': 'evidence/%s.json' % pid,
            'replay_cmd_template': './run %s --replay {path}' % pid,
            'engine': 'symx',
            'level_claimed': {'category': meta.get('category', 'model_checking'),
                              'text': meta['text'], 'design_ref': meta.get('design_ref', 'DESIGN.md section 5 ' + pid)},
            'level_note': meta['note'],
            'technique': meta['technique'],
        })
    else:
        na.append({'property_id': pid, 'reason': PENDING.get(pid, 'check not built yet in this session (see DESIGN.md build order)')})
man = {
    'version': 1,
    'setup_cmd': './setup.sh',
    'hooks': {'guard': 'PSEUDONETCDF_VERIF', 'enable': 'no hooks are needed: the twin loader executes the unmodified source text of /repo on symbolic values; the guard name is reserved only',
              'baseline_off_cmd': 'cd /repo && /venv/bin/python -m pytest -ra -q -p no:cacheprovider --timeout=900 --continue-on-collection-errors',
              'source_commits': [], 'add_only': True},
    'engines': [{'name': 'symx', 'path': 'verifx/', 'serves_properties': [c['property_id'] for c in checks],
                 'kind_free_text': 'symbolic execution of the repository\'s own Python source (twin loader: source text re-executed with patched builtins/imports) on z3-backed scalars inside real numpy object arrays; DFS path exploration by re-execution; every claim decided by z3 (5.1.0) over all inputs of the path; every sat model and one model per path replayed on the unpatched library'}],
    'checks': checks,
    'not_applicable': na,
    'notes': 'Exit codes: 0 held within bounds / only known findings; 1 replay-confirmed violation; 3 harness error or model mismatch (INCONCLUSIVE). Bounds and inconclusive obligations are listed in each evidence file.',
}
json.dump(man, open('MANIFEST.json', 'w'), indent=1)
print(len(checks), 'checks;', len(na), 'not applicable')
