"""re-execute a stored counterexample against the real (unpatched) library"""
import fnmatch
import importlib
import json


def main(modname, path):
    with open(path) as f:
        blob = json.load(f)
    mod = importlib.import_module(blob.get('module', modname))
    tier = blob.get('tier', 'quick')
    obs = [o for o in mod.obligations(tier) if o.name == blob['obligation']]
    if not obs and hasattr(mod, 'replay_case'):
        r = mod.replay_case(blob)
    elif not obs:
        print('INCONCLUSIVE unknown obligation ' + blob['obligation'])
        return 3
    else:
        r = obs[0].real(blob['case']['inputs'])
    print(json.dumps(r, indent=1, default=repr))
    viol = r.get('violations') or {}
    if viol:
        print('VIOLATION property=%s replay=%s' % (blob['property'], path))
        return 1
    print('not reproduced')
    return 0
