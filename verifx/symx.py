"""symx -- symbolic scalars on z3 and a depth-first path explorer by re-execution.

The real library code is executed on these objects.  Every Python-level branch on
a symbolic condition (``SymBool.__bool__``) asks the solver which sides are
feasible under the current path condition, follows one and queues the other.
Where a symbolic integer has to cross a C boundary (``__index__`` for numpy
indexing, ``range``) it is *concretised by forking*: the solver proposes a value
``v``, the path continues under ``e == v`` and the alternative ``e != v`` is
queued, so all feasible values within the declared bounds are covered.

Control-flow exceptions derive from BaseException so that the library's own
``except Exception`` handlers never swallow them.
"""
import fractions
import math
import time

import z3

# --------------------------------------------------------------------------
# control flow


class PathAbort(BaseException):
    """current path is infeasible (assumption unsatisfiable)"""


class PathLimit(BaseException):
    """unwinding / decision bound hit: path is truncated (inconclusive)"""


class SolverUnknown(BaseException):
    """solver returned unknown where a decision was needed"""


class Candidate(BaseException):
    """the code left the documented domain of a stubbed primitive; carries a
    description.  Replay on the real stack decides."""

    def __init__(self, what, extra=None):
        BaseException.__init__(self, what)
        self.what = what
        self.extra = extra


CUR = None  # current Ctx
INTEGRAL_FLOATS_AS_INT = True
STR_TABLE = {}  # token -> Sym (see Sym.__str__)


def cur():
    if CUR is None:
        raise RuntimeError('no symbolic context active')
    return CUR


class Ctx(object):
    def __init__(self, prefix=(), max_decisions=400, query_timeout_ms=20000,
                 seed=0):
        self.solver = z3.Solver()
        self.solver.set('timeout', query_timeout_ms)
        self.query_timeout_ms = query_timeout_ms
        self.solver.set('random_seed', seed)
        self.seed = seed
        self.prefix = list(prefix)
        self.decisions = []
        self.pending = []
        self.pc = []
        self.inputs = {}  # name -> z3 const (ordered)
        self.max_decisions = max_decisions
        self.queries = 0
        self.solver_s = 0.0
        self.notes = []
        self.nfresh = 0
        self.unknown_feasibility = False
        self._fixed = {}
        self.numpy_division = False  # harness switch: numpy 0-division
        self.max_concretize = 64
        self.var_bounds = {}
        self.eager_fp = False

    # -- variables ---------------------------------------------------------
    def _reg(self, name, c):
        if name in self.inputs:
            raise RuntimeError('duplicate symbolic input ' + name)
        self.inputs[name] = c
        return c

    def int(self, name, lo=None, hi=None):
        c = self._reg(name, z3.Int(name))
        v = SymInt(c)
        if lo is not None and hi is not None:
            self.var_bounds[c.get_id()] = (lo, hi)
        # bounds of a fresh variable are satisfiable by construction
        if lo is not None:
            self.assume(c >= lo, check=False)
        if hi is not None:
            self.assume(c <= hi, check=False)
        return v

    def real(self, name, lo=None, hi=None):
        c = self._reg(name, z3.Real(name))
        if lo is not None:
            self.assume(c >= _rv(lo), check=False)
        if hi is not None:
            self.assume(c <= _rv(hi), check=False)
        return SymReal(c)

    def bool(self, name):
        return SymBool(self._reg(name, z3.Bool(name)))

    def fp(self, name, sort):
        c = self._reg(name, z3.FP(name, sort))
        return SymFP(c)

    def bv(self, name, bits):
        return self._reg(name, z3.BitVec(name, bits))

    # -- solver ------------------------------------------------------------
    def _check(self, *extra):
        t0 = time.time()
        r = self.solver.check(*extra)
        self.solver_s += time.time() - t0
        self.queries += 1
        return str(r)

    def assume(self, cond, check=True):
        cond = _b(cond)
        s = z3.simplify(cond)
        if z3.is_true(s):
            return
        self.solver.add(cond)
        self.pc.append(cond)
        if z3.is_false(s):
            raise PathAbort()
        if not check:
            return
        r = self._check()
        if r == 'unsat':
            raise PathAbort()
        if r == 'unknown':
            self.unknown_feasibility = True

    def require(self, cond, what):
        """a bound of the *model* (not of the property): if the code under
        analysis can leave it on this path the path must not silently
        disappear -- it is reported (Candidate -> inconclusive unless replay
        confirms a violation); otherwise the bound is assumed"""
        cond = _b(cond)
        if z3.is_true(z3.simplify(cond)):
            return
        r = self._check(z3.Not(cond))
        if r != 'unsat':
            raise Candidate('model bound left: ' + what)
        self.solver.add(cond)
        self.pc.append(cond)

    def _record(self, entry):
        self.decisions.append(entry)
        if len(self.decisions) > self.max_decisions:
            raise PathLimit('more than %d decisions' % self.max_decisions)

    def branch(self, cond):
        """decide a symbolic condition; returns a Python bool"""
        cond = _b(cond)
        s = z3.simplify(cond)
        if z3.is_true(s):
            return True
        if z3.is_false(s):
            return False
        i = len(self.decisions)
        if i < len(self.prefix):
            kind, val = self.prefix[i]
            assert kind == 'b', (kind, val, i)
            self._record(('b', val))
            c = cond if val else z3.Not(cond)
            self.solver.add(c)
            self.pc.append(c)
            return val
        rt = self._check(cond)
        if rt == 'unsat':
            c = z3.Not(cond)
            self.solver.add(c)
            self.pc.append(c)
            self._record(('b', False))
            return False
        rf = self._check(z3.Not(cond))
        if rf == 'unsat':
            self.solver.add(cond)
            self.pc.append(cond)
            self._record(('b', True))
            return True
        if rt == 'unknown' or rf == 'unknown':
            self.unknown_feasibility = True
        # both feasible (or unknown): take True, queue False
        self.pending.append(self.decisions + [('b', False)])
        self.solver.add(cond)
        self.pc.append(cond)
        self._record(('b', True))
        return True

    def concretize(self, e):
        """fork over the feasible integer values of e; returns a Python int"""
        s = z3.simplify(e)
        if z3.is_int_value(s):
            return s.as_long()
        key = e.get_id()
        if key in self._fixed:
            return self._fixed[key][1]
        tries = 0
        while True:
            tries += 1
            if tries > self.max_concretize:
                raise PathLimit('more than %d values for one concretised '
                                'expression' % self.max_concretize)
            i = len(self.decisions)
            if i < len(self.prefix):
                kind, v = self.prefix[i]
                assert kind == 'v', (kind, v, i)
                self._record(('v', v))
            else:
                r = self._check()
                if r != 'sat':
                    if r == 'unsat':
                        raise PathAbort()
                    raise SolverUnknown('concretize')
                v = self.solver.model().eval(e, model_completion=True)
                v = v.as_long()
                self._record(('v', v))
            if self.branch(e == v):
                self._fixed[key] = (e, v)  # keeps e alive: ids stay unique
                return v

    def concretize_bv(self, e):
        """fork over the feasible values of a bit-vector expression (signed);
        stays inside the BV theory (no bv2int in the path condition)"""
        s = z3.simplify(e)
        if z3.is_bv_value(s):
            return s.as_signed_long()
        key = ('bv', e.get_id())
        if key in self._fixed:
            return self._fixed[key][1]
        tries = 0
        while True:
            tries += 1
            if tries > self.max_concretize:
                raise PathLimit('more than %d values for one concretised '
                                'expression' % self.max_concretize)
            i = len(self.decisions)
            if i < len(self.prefix):
                kind, v = self.prefix[i]
                assert kind == 'v', (kind, v, i)
                self._record(('v', v))
            else:
                r = self._check()
                if r != 'sat':
                    if r == 'unsat':
                        raise PathAbort()
                    raise SolverUnknown('concretize_bv')
                v = self.solver.model().eval(e, model_completion=True)
                v = v.as_signed_long()
                self._record(('v', v))
            if self.branch(e == z3.BitVecVal(v, e.size())):
                self._fixed[key] = (e, v)
                return v

    def model(self, extra=()):
        r = self._check(*extra)
        if r != 'sat':
            return None
        return self.solver.model()

    def model_inputs(self, m):
        out = {}
        for k, c in self.inputs.items():
            out[k] = pyval(m.eval(c, model_completion=True))
        return out

    def prove(self, prop):
        """is prop valid under the path condition?  returns
        ('unsat', None) = holds | ('sat', inputs) | ('unknown', None)"""
        prop = _b(prop)
        s = z3.simplify(prop)
        if z3.is_true(s):
            return 'unsat', None
        # polynomial identities: sum-of-monomials normal form decides them
        # without involving the non-linear solver
        s = z3.simplify(prop, som=True, arith_lhs=True, flat=True)
        if z3.is_true(s):
            return 'unsat', None
        if self.eager_fp:
            # bit-precise float queries: eager bit-blasting to SAT is an
            # order of magnitude faster than the lazy default here
            es = z3.Then('simplify', 'fpa2bv', 'simplify', 'bit-blast',
                         'sat').solver()
            es.set('timeout', self.query_timeout_ms)
            for a in self.solver.assertions():
                es.add(a)
            es.add(z3.Not(prop))
            t0 = time.time()
            r = str(es.check())
            self.solver_s += time.time() - t0
            self.queries += 1
            if r == 'sat':
                return 'sat', self.model_inputs(es.model())
            if r == 'unsat':
                return r, None
            # 'unknown' from the eager pipeline (e.g. the SAT tactic gives
            # up on model reconstruction): ask the default solver too
        # a fresh (non-incremental) solver per validity query: z3's
        # incremental mode uses a weaker configuration and was measured
        # 100x slower on the div/mod-heavy date arithmetic
        # restarts: solving times of the non-linear queries (std/var, date
        # arithmetic) are heavy-tailed in the random seed, so short attempts
        # with different seeds come before the long one
        total = self.query_timeout_ms
        plan = [(min(3000, total), self.seed),
                (min(12000, total), self.seed + 101),
                (total, self.seed + 202)]
        r = 'unknown'
        for tmo, seed in plan:
            fs = z3.Solver()
            fs.set('timeout', int(tmo))
            fs.set('random_seed', int(seed))
            for a in self.solver.assertions():
                fs.add(a)
            fs.add(z3.Not(prop))
            t0 = time.time()
            r = str(fs.check())
            self.solver_s += time.time() - t0
            self.queries += 1
            if r == 'sat':
                return 'sat', self.model_inputs(fs.model())
            if r == 'unsat':
                return r, None
            if tmo >= total:
                break
        return r, None


def pyval(v):
    if z3.is_int_value(v):
        return v.as_long()
    if z3.is_rational_value(v):
        f = fractions.Fraction(v.numerator_as_long(), v.denominator_as_long())
        try:
            fl = float(f)
        except OverflowError:
            fl = float('inf') if f > 0 else float('-inf')
        return {'num': f.numerator, 'den': f.denominator, 'float': fl}
    if z3.is_algebraic_value(v):
        a = v.approx(30)
        f = fractions.Fraction(a.numerator_as_long(), a.denominator_as_long())
        return {'num': f.numerator, 'den': f.denominator, 'float': float(f),
                'algebraic': True}
    if z3.is_true(v):
        return True
    if z3.is_false(v):
        return False
    if z3.is_fp(v):
        try:
            if z3.is_fprm(v):
                return str(v)
            if v.isNaN():
                return {'fp': 'nan'}
            if v.isInf():
                return {'fp': '-inf' if v.isNegative() else 'inf'}
            sb, eb = v.sbits(), v.ebits()
            bvv = z3.simplify(z3.fpToIEEEBV(v))
            return {'fp_bits': bvv.as_long(), 'ebits': eb, 'sbits': sb}
        except Exception:
            return str(v)
    if z3.is_bv_value(v):
        return v.as_long()
    return str(v)


def frac_of(d):
    """model value (as written by pyval) -> Fraction/int/bool"""
    if isinstance(d, dict) and 'num' in d:
        return fractions.Fraction(d['num'], d['den'])
    return d


# --------------------------------------------------------------------------
# helpers


def _rv(x):
    """python number -> z3 real value (exact binary value of floats)"""
    if isinstance(x, bool):
        return z3.RealVal(int(x))
    if isinstance(x, int):
        return z3.RealVal(x)
    if isinstance(x, fractions.Fraction):
        return z3.RealVal(str(x.numerator)) / z3.RealVal(str(x.denominator)) \
            if x.denominator != 1 else z3.RealVal(str(x.numerator))
    if isinstance(x, float):
        if math.isnan(x) or math.isinf(x):
            raise NonFinite(x)
        f = fractions.Fraction(x)
        return z3.Q(f.numerator, f.denominator)
    try:
        import numpy as np
        if isinstance(x, np.integer):
            return z3.RealVal(int(x))
        if isinstance(x, np.floating):
            return _rv(float(x))
        if isinstance(x, np.bool_):
            return z3.RealVal(int(x))
    except ImportError:
        pass
    raise TypeError('cannot lift %r to Real' % (x,))


class NonFinite(Exception):
    pass


def _b(x):
    if isinstance(x, SymBool):
        return x.e
    if isinstance(x, z3.BoolRef):
        return x
    if isinstance(x, (bool,)):
        return z3.BoolVal(x)
    try:
        import numpy as np
        if isinstance(x, np.bool_):
            return z3.BoolVal(bool(x))
    except ImportError:
        pass
    raise TypeError('cannot lift %r to Bool' % (x,))


def _is_int_like(x):
    if isinstance(x, bool):
        return True
    if isinstance(x, int):
        return True
    try:
        import numpy as np
        return isinstance(x, (np.integer, np.bool_))
    except ImportError:
        return False


def _is_float_like(x):
    if isinstance(x, (float, fractions.Fraction)):
        return True
    try:
        import numpy as np
        return isinstance(x, np.floating)
    except ImportError:
        return False


class Sym(object):
    __slots__ = ('e',)
    # numpy: let our reflected operators win over numpy scalars
    # no __array_priority__: numpy must treat these as scalars.
    # numpy-scalar look-alike attributes (an object array hands out the bare
    # element where a numeric array hands out a numpy scalar)
    size = 1
    shape = ()
    ndim = 0

    def __init__(self, e):
        self.e = e

    def item(self):
        return self

    def view(self, *a, **k):
        return self

    def astype(self, dtype, *a, **k):
        import numpy as np
        kind = np.dtype(dtype).kind
        if kind in 'iu':
            if isinstance(self, SymReal):
                return self.trunc()
            if isinstance(self, SymBool):
                return SymInt(_num(self)[1])
            return self
        if kind == 'f':
            if isinstance(self, SymInt):
                return SymReal(z3.ToReal(self.e))
            return self
        if kind == 'b':
            return self != 0
        return self

    def __getitem__(self, idx):
        # numpy scalars accept [...] and [()]
        if idx is Ellipsis or idx == ():
            return self
        raise IndexError('invalid index to scalar variable.')

    def take(self, i, axis=None):
        return self

    def ravel(self):
        import numpy as np
        a = np.empty(1, dtype=object)
        a[0] = self
        return a

    def __repr__(self):
        return '%s(%s)' % (type(self).__name__, z3.simplify(self.e))

    def __str__(self):
        # text round trip ('%s' % x ... eval(text)): a token that the twin's
        # eval maps back to this object
        tok = '_SYMTOK%d_' % len(STR_TABLE)
        STR_TABLE[tok] = self
        return tok

    def __hash__(self):
        return id(self)

    def __deepcopy__(self, memo):
        return self

    def __copy__(self):
        return self


class SymBool(Sym):
    __slots__ = ()

    def __bool__(self):
        return cur().branch(self.e)

    def __and__(self, o):
        return SymBool(z3.And(self.e, _b(o)))
    __rand__ = __and__

    def __or__(self, o):
        return SymBool(z3.Or(self.e, _b(o)))
    __ror__ = __or__

    def __xor__(self, o):
        return SymBool(z3.Xor(self.e, _b(o)))
    __rxor__ = __xor__

    def __invert__(self):
        return SymBool(z3.Not(self.e))

    def __eq__(self, o):
        try:
            return SymBool(self.e == _b(o))
        except TypeError:
            return NotImplemented

    def __ne__(self, o):
        try:
            return SymBool(self.e != _b(o))
        except TypeError:
            return NotImplemented
    __hash__ = Sym.__hash__

    def __int__(self):
        return int(bool(self))

    def __index__(self):
        return int(bool(self))


def _num(x):
    """lift to (kind, z3expr) with kind in 'i','r'"""
    if isinstance(x, SymInt):
        return 'i', x.e
    if isinstance(x, SymReal):
        return 'r', x.e
    if isinstance(x, SymBool):
        return 'i', z3.If(x.e, 1, 0)
    if _is_int_like(x):
        return 'i', z3.IntVal(int(x))
    if _is_float_like(x):
        if INTEGRAL_FLOATS_AS_INT and isinstance(x, float) and \
                x == x and abs(x) < 2.0 ** 62 and x == int(x):
            # value-preserving in "real" float mode; keeps integer
            # arithmetic out of the mixed int/real fragment
            return 'i', z3.IntVal(int(x))
        return 'r', _rv(x)
    raise TypeError(x)


def _wrap(kind, e):
    return SymInt(e) if kind == 'i' else SymReal(e)


def _coerce2(a, b):
    ka, ea = _num(a)
    kb, eb = _num(b)
    if ka == kb:
        return ka, ea, eb
    if ka == 'i':
        ea = z3.ToReal(ea)
    if kb == 'i':
        eb = z3.ToReal(eb)
    return 'r', ea, eb


def _floor_real(e):
    return z3.ToInt(e)  # z3 ToInt is floor


_INF = float('inf')


_IB_CACHE = {}


def _ibounds(e, depth=0):
    """cheap interval of a z3 Int term from the declared bounds of the
    symbolic inputs: (lo, hi) with +-inf for unknown (memoised per term:
    shared sub-terms of if-then-else chains would otherwise be revisited
    exponentially often)"""
    key = (id(CUR), e.get_id())
    hit = _IB_CACHE.get(key)
    if hit is not None and hit[0].eq(e):
        return hit[1]
    r = _ibounds0(e, depth)
    if len(_IB_CACHE) > 200000:
        _IB_CACHE.clear()
    _IB_CACHE[key] = (e, r)
    return r


def _ibounds0(e, depth=0):
    if depth > 60:
        return -_INF, _INF
    if z3.is_int_value(e):
        v = e.as_long()
        return v, v
    k = e.decl().kind()
    ch = [e.arg(i) for i in range(e.num_args())]
    if k == z3.Z3_OP_UNINTERPRETED and not ch:
        b = getattr(CUR, 'var_bounds', {}).get(e.get_id()) if CUR else None
        return b if b else (-_INF, _INF)
    bs = [_ibounds(c, depth + 1) for c in ch]
    if k == z3.Z3_OP_ADD:
        return sum(b[0] for b in bs), sum(b[1] for b in bs)
    if k == z3.Z3_OP_SUB and len(bs) == 2:
        return bs[0][0] - bs[1][1], bs[0][1] - bs[1][0]
    if k == z3.Z3_OP_UMINUS:
        return -bs[0][1], -bs[0][0]
    if k == z3.Z3_OP_MUL and len(ch) == 2:
        for i in (0, 1):
            if z3.is_int_value(ch[i]):
                c = ch[i].as_long()
                lo, hi = bs[1 - i]
                if c == 0:
                    return 0, 0
                v = [c * lo if lo not in (-_INF, _INF) else (
                    -_INF if (c > 0) == (lo < 0) else _INF),
                    c * hi if hi not in (-_INF, _INF) else (
                    _INF if (c > 0) == (hi > 0) else -_INF)]
                return min(v), max(v)
        return -_INF, _INF
    if k == z3.Z3_OP_IDIV and z3.is_int_value(ch[1]) and \
            ch[1].as_long() > 0:
        c = ch[1].as_long()
        lo, hi = bs[0]
        return (lo // c if lo != -_INF else -_INF,
                hi // c if hi != _INF else _INF)
    if k == z3.Z3_OP_MOD and z3.is_int_value(ch[1]) and ch[1].as_long() > 0:
        c = ch[1].as_long()
        lo, hi = bs[0]
        if lo != -_INF and hi != _INF and lo // c == hi // c:
            return lo % c, hi % c
        return 0, c - 1
    if k == z3.Z3_OP_ITE:
        return min(bs[1][0], bs[2][0]), max(bs[1][1], bs[2][1])
    return -_INF, _INF


def _linear_terms(e):
    """[(coef, atom)] and constant of a z3 Int term, atoms being its
    non-linear subterms (variables, div, mod, ite ...)"""
    terms, const = [], 0

    def walk(t, mult):
        nonlocal const
        if z3.is_int_value(t):
            const += mult * t.as_long()
            return
        k = t.decl().kind()
        if k == z3.Z3_OP_ADD:
            for i in range(t.num_args()):
                walk(t.arg(i), mult)
            return
        if k == z3.Z3_OP_SUB and t.num_args() == 2:
            walk(t.arg(0), mult)
            walk(t.arg(1), -mult)
            return
        if k == z3.Z3_OP_UMINUS:
            walk(t.arg(0), -mult)
            return
        if k == z3.Z3_OP_MUL and t.num_args() == 2:
            a, b = t.arg(0), t.arg(1)
            if z3.is_int_value(a):
                walk(b, mult * a.as_long())
                return
            if z3.is_int_value(b):
                walk(a, mult * b.as_long())
                return
        terms.append((mult, t))
    walk(e, 1)
    return terms, const


def _divmod_const(a, c):
    """(quotient, remainder) z3 terms of Python floor division of the Int
    term a by the positive constant c, simplified with interval knowledge:
    a = c*M + R with the interval of R inside one block of length c gives
    a // c = M + const and a % c = R - c*const (both linear).  Falls back to
    z3's div/mod."""
    terms, const = _linear_terms(a)
    M, R = [], []
    for coef, atom in terms:
        if coef % c == 0:
            M.append((coef // c, atom))
        else:
            R.append((coef, atom))
    Mc, Rc = const // c, const % c
    rlo = rhi = Rc
    for coef, atom in R:
        lo, hi = _ibounds(atom)
        vals = (coef * lo if abs(lo) != _INF else
                (-_INF if (coef > 0) == (lo < 0) else _INF),
                coef * hi if abs(hi) != _INF else
                (_INF if (coef > 0) == (hi > 0) else -_INF))
        rlo += min(vals)
        rhi += max(vals)
    if abs(rlo) != _INF and abs(rhi) != _INF and rlo // c == rhi // c:
        q0 = rlo // c
        q = z3.IntVal(Mc + q0)
        for coef, atom in M:
            q = q + coef * atom
        r = z3.IntVal(Rc - c * q0)
        for coef, atom in R:
            r = r + coef * atom
        return z3.simplify(q), z3.simplify(r)
    return a / c, a % c


def _floordiv_int(a, b):
    """Python floor division on z3 Ints (z3 div rounds toward -inf only for
    positive divisors)"""
    sb = z3.simplify(b)
    if z3.is_int_value(sb):
        bv = sb.as_long()
        if bv > 0:
            return _divmod_const(a, bv)[0]
        if bv < 0:
            return (-a) / (-b)
        raise ZeroDivisionError('integer division or modulo by zero')
    if cur().branch(b == 0):
        raise ZeroDivisionError('integer division or modulo by zero')
    return z3.If(b > 0, a / b, (-a) / (-b))


def _ratio_of(x):
    """(int z3 expr, positive int) such that x == expr/den exactly, or None"""
    if isinstance(x, SymInt):
        return x.e, 1
    if isinstance(x, SymReal):
        return x.ratio
    if isinstance(x, bool):
        return None
    if _is_int_like(x):
        return z3.IntVal(int(x)), 1
    if isinstance(x, float) and x == x and abs(x) < 2.0 ** 62:
        f = fractions.Fraction(x)
        if f.denominator < 2 ** 40:
            return z3.IntVal(f.numerator), f.denominator
    if isinstance(x, fractions.Fraction):
        return z3.IntVal(x.numerator), x.denominator
    return None


class _SymNum(Sym):
    __slots__ = ()

    def _bin(self, o, f, rev=False):
        try:
            k, a, b = _coerce2(self, o)
        except (TypeError, NonFinite):
            return NotImplemented
        if rev:
            a, b = b, a
        return _wrap(k, f(a, b))

    def _addsub(self, o, sign, rev):
        f = (lambda a, b: a + b) if sign > 0 else (lambda a, b: a - b)
        r = self._bin(o, f, rev)
        if isinstance(r, SymReal):
            ra, rb = _ratio_of(self), _ratio_of(o)
            if ra is not None and rb is not None:
                if rev:
                    ra, rb = rb, ra
                (na, da), (nb, db) = ra, rb
                import math
                den = da * db // math.gcd(da, db)
                num = na * (den // da) + sign * nb * (den // db)
                r.ratio = (num, den)
        return r

    def __add__(self, o):
        return self._addsub(o, 1, False)

    def __radd__(self, o):
        return self._addsub(o, 1, True)

    def __sub__(self, o):
        return self._addsub(o, -1, False)

    def __rsub__(self, o):
        return self._addsub(o, -1, True)

    def __mul__(self, o):
        r = self._bin(o, lambda a, b: a * b)
        rt = _ratio_of(self)
        ro = _ratio_of(o) if not isinstance(o, Sym) else None
        if rt is not None and ro is not None and isinstance(r, SymReal):
            import math
            cn = z3.simplify(ro[0]).as_long()
            g = math.gcd(abs(cn), rt[1]) or 1
            r.ratio = (rt[0] * (cn // g), (rt[1] // g) * ro[1])
        return r

    def __rmul__(self, o):
        return self.__mul__(o)

    def __neg__(self):
        return type(self)(-self.e)

    def __pos__(self):
        return self

    def __abs__(self):
        return type(self)(z3.If(self.e >= 0, self.e, -self.e))

    def _truediv(self, o, rev):
        try:
            k, a, b = _coerce2(self, o)
        except (TypeError, NonFinite):
            return NotImplemented
        ratio = None
        if k == 'i':
            ia, ib = (b, a) if rev else (a, b)
            sib = z3.simplify(ib)
            if z3.is_int_value(sib) and sib.as_long() > 0:
                ratio = (ia, sib.as_long())
            a, b = z3.ToReal(a), z3.ToReal(b)
        if rev:
            a, b = b, a
        if ratio is not None:
            return SymReal(a / b, ratio)
        if not rev:
            rt, ro = _ratio_of(self), (_ratio_of(o)
                                       if not isinstance(o, Sym) else None)
            if rt is not None and ro is not None:
                cn = z3.simplify(ro[0]).as_long()
                if cn > 0:
                    # (n/d) / (cn/cd) = n*cd / (d*cn)
                    return SymReal(a / b, (rt[0] * ro[1], rt[1] * cn))
        sb = z3.simplify(b)
        if not z3.is_rational_value(sb) or sb.numerator_as_long() == 0:
            if cur().branch(b == 0):
                if cur().numpy_division:
                    # numpy float semantics: x/0 is inf or nan (non-finite)
                    return NAN
                raise ZeroDivisionError('division by zero')
        return SymReal(a / b)

    def __truediv__(self, o):
        return self._truediv(o, False)

    def __rtruediv__(self, o):
        return self._truediv(o, True)

    def _floordiv(self, o, rev, mod=False):
        try:
            k, a, b = _coerce2(self, o)
        except (TypeError, NonFinite):
            return NotImplemented
        if rev:
            a, b = b, a
        if k == 'i':
            if cur().numpy_division:
                sb = z3.simplify(b)
                if not z3.is_int_value(sb) or sb.as_long() == 0:
                    if cur().branch(b == 0):
                        # numpy integer semantics: x//0 and x%0 are 0
                        return SymInt(z3.IntVal(0))
            sb_ = z3.simplify(b)
            if z3.is_int_value(sb_) and sb_.as_long() > 0:
                qq, rr = _divmod_const(a, sb_.as_long())
                return SymInt(rr) if mod else SymInt(qq)
            q = _floordiv_int(a, b)
            return SymInt(a - q * b) if mod else SymInt(q)
        sb = z3.simplify(b)
        if not z3.is_rational_value(sb) or sb.numerator_as_long() == 0:
            if cur().branch(b == 0):
                if cur().numpy_division:
                    return NAN
                raise ZeroDivisionError('float division by zero')
        q = z3.ToReal(_floor_real(a / b))
        return SymReal(a - q * b) if mod else SymReal(q)

    def __floordiv__(self, o):
        return self._floordiv(o, False)

    def __rfloordiv__(self, o):
        return self._floordiv(o, True)

    def __mod__(self, o):
        return self._floordiv(o, False, True)

    def __rmod__(self, o):
        return self._floordiv(o, True, True)

    def __divmod__(self, o):
        return self // o, self % o

    def __pow__(self, o):
        if _is_int_like(o) and 0 <= int(o) <= 4:
            r = type(self)(z3.IntVal(1) if isinstance(self, SymInt)
                           else z3.RealVal(1))
            for _ in range(int(o)):
                r = r * self
            return r
        return NotImplemented

    def _cmp(self, o, f):
        try:
            k, a, b = _coerce2(self, o)
        except TypeError:
            return NotImplemented
        except NonFinite as ex:
            # comparisons with nan are False, with +-inf decided
            x = ex.args[0]
            if math.isnan(x):
                return f is _ne
            big = x > 0
            # self ? +inf
            table = {_lt: big, _le: big, _gt: not big, _ge: not big,
                     _eq: False, _ne: True}
            return table[f]
        return SymBool(f(a, b))

    def __lt__(self, o):
        return self._cmp(o, _lt)

    def __le__(self, o):
        return self._cmp(o, _le)

    def __gt__(self, o):
        return self._cmp(o, _gt)

    def __ge__(self, o):
        return self._cmp(o, _ge)

    def __eq__(self, o):
        return self._cmp(o, _eq)

    def __ne__(self, o):
        return self._cmp(o, _ne)

    __hash__ = Sym.__hash__


def _lt(a, b):
    return a < b


def _le(a, b):
    return a <= b


def _gt(a, b):
    return a > b


def _ge(a, b):
    return a >= b


def _eq(a, b):
    return a == b


def _ne(a, b):
    return a != b


class SymInt(_SymNum):
    __slots__ = ()

    def __index__(self):
        return cur().concretize(self.e)

    def __int__(self):
        return cur().concretize(self.e)

    def __float__(self):
        return float(cur().concretize(self.e))

    def __bool__(self):
        return cur().branch(self.e != 0)

    def __round__(self, n=None):
        return self

    def __trunc__(self):
        return self

    def __floor__(self):
        return self

    def __ceil__(self):
        return self

    def __hash__(self):
        return hash(cur().concretize(self.e))

    # numpy ufunc hooks for object arrays
    def rint(self):
        return self

    def conjugate(self):
        return self


class SymReal(_SymNum):
    __slots__ = ('ratio',)

    def __init__(self, e, ratio=None):
        self.e = e
        # (int_expr, positive int c): this value is exactly int_expr / c
        # (kept structurally so that floor/round stay integer arithmetic)
        self.ratio = ratio

    def _int_ratio(self):
        """(int_expr, positive int divisor) if self is structurally
        ToReal(int_expr) / c or ToReal(int_expr) * (1/c), or an integer
        valued ToReal(int_expr); else None"""
        if self.ratio is not None:
            return self.ratio
        e = z3.simplify(self.e)
        k = e.decl().kind()
        if k == z3.Z3_OP_TO_REAL:
            return e.arg(0), 1
        if k == z3.Z3_OP_DIV and e.arg(0).decl().kind() == \
                z3.Z3_OP_TO_REAL and z3.is_rational_value(e.arg(1)):
            c = e.arg(1)
            if c.denominator_as_long() == 1 and c.numerator_as_long() > 0:
                return e.arg(0).arg(0), c.numerator_as_long()
        if k == z3.Z3_OP_MUL and e.num_args() == 2:
            a, b = e.arg(0), e.arg(1)
            if z3.is_rational_value(b):
                a, b = b, a
            if z3.is_rational_value(a) and b.decl().kind() == \
                    z3.Z3_OP_TO_REAL:
                n, d = a.numerator_as_long(), a.denominator_as_long()
                if n > 0:
                    return b.arg(0) * n, d
        return None

    def trunc(self):
        r = self._int_ratio()
        if r is not None:
            i, c = r
            if c == 1:
                return SymInt(i)
            return SymInt(z3.If(i >= 0, i / c, -((-i) / c)))
        e = self.e
        return SymInt(z3.If(e >= 0, z3.ToInt(e), -z3.ToInt(-e)))

    def floor(self):
        r = self._int_ratio()
        if r is not None:
            i, c = r
            return SymInt(i if c == 1 else i / c)
        return SymInt(z3.ToInt(self.e))

    def ceil(self):
        return SymInt(-z3.ToInt(-self.e))

    def round_half_even(self):
        r = self._int_ratio()
        if r is not None and r[1] == 1:
            return SymInt(r[0])
        if r is not None:
            i, c = r
            f = i / c
            rem = i - f * c            # 0 <= rem < c
            two = 2 * rem
            return SymInt(z3.If(two < c, f, z3.If(two > c, f + 1,
                                                  z3.If(f % 2 == 0, f,
                                                        f + 1))))
        e = self.e
        f = z3.ToInt(e)
        d = e - z3.ToReal(f)
        half = z3.Q(1, 2)
        return SymInt(z3.If(d < half, f,
                            z3.If(d > half, f + 1,
                                  z3.If(f % 2 == 0, f, f + 1))))

    def __round__(self, n=None):
        if n is None:
            return self.round_half_even()
        if n == 0:
            return SymReal(z3.ToReal(self.round_half_even().e))
        raise NotImplementedError('round to digits')

    def rint(self):
        return SymReal(z3.ToReal(self.round_half_even().e))

    def __trunc__(self):
        return self.trunc()

    def __floor__(self):
        return self.floor()

    def __ceil__(self):
        return self.ceil()

    def __int__(self):
        # C boundary (e.g. ndarray.astype('i') on an object array)
        return cur().concretize(self.trunc().e)

    def __index__(self):
        raise TypeError('SymReal cannot be interpreted as an integer')

    def __float__(self):
        raise TypeError('symbolic real reached a C float boundary')

    def __bool__(self):
        return cur().branch(self.e != 0)

    def conjugate(self):
        return self

    def is_integer(self):
        return bool(SymBool(z3.ToReal(z3.ToInt(self.e)) == self.e))


class SymNaN(object):
    """a concrete NaN that survives object arrays the way a float64 NaN
    survives numeric arrays (int conversion gives INT_MIN, comparisons are
    False, arithmetic propagates)."""
    pass  # no __array_priority__: numpy must treat these as scalars

    def _p(self, *a):
        return self
    __add__ = __radd__ = __sub__ = __rsub__ = __mul__ = __rmul__ = _p
    __truediv__ = __rtruediv__ = __floordiv__ = __rfloordiv__ = _p
    __mod__ = __rmod__ = __neg__ = __abs__ = __pos__ = _p
    rint = floor = ceil = trunc = _p

    def __round__(self, n=None):
        return self

    def _f(self, o):
        return False
    __lt__ = __le__ = __gt__ = __ge__ = __eq__ = _f

    def __ne__(self, o):
        return True

    def __hash__(self):
        return 0

    def __int__(self):
        return -2147483648

    def __float__(self):
        return float('nan')

    def __repr__(self):
        return 'SymNaN'

    def __bool__(self):
        return True


NAN = SymNaN()


def is_sym(x):
    return isinstance(x, Sym)


# --------------------------------------------------------------------------
# floating point (bit precise)

RNE = z3.RNE()
F32 = z3.Float32()
F64 = z3.Float64()


class SymFP(Sym):
    """IEEE value; arithmetic in its own sort, RNE.  Mixed with Python
    floats/ints (lifted exactly when representable)."""
    __slots__ = ()

    @property
    def sort(self):
        return self.e.sort()

    def _lift(self, o):
        if isinstance(o, SymFP):
            if o.sort == self.sort:
                return o.e
            # promote to the wider (numpy promotion f32 op f64 -> f64)
            raise TypeError('mixed fp sorts: promote explicitly')
        if isinstance(o, (int, float)) or _is_float_like(o) or _is_int_like(o):
            return z3.FPVal(float(o), self.sort)
        if isinstance(o, SymBVInt):
            return z3.fpSignedToFP(RNE, o.e, self.sort)
        raise TypeError(o)

    def _bin(self, o, f, rev=False):
        try:
            b = self._lift(o)
        except TypeError:
            return NotImplemented
        a = self.e
        if rev:
            a, b = b, a
        return SymFP(f(a, b))

    def __add__(self, o):
        return self._bin(o, lambda a, b: z3.fpAdd(RNE, a, b))

    def __radd__(self, o):
        return self._bin(o, lambda a, b: z3.fpAdd(RNE, a, b), True)

    def __sub__(self, o):
        return self._bin(o, lambda a, b: z3.fpSub(RNE, a, b))

    def __rsub__(self, o):
        return self._bin(o, lambda a, b: z3.fpSub(RNE, a, b), True)

    def __mul__(self, o):
        return self._bin(o, lambda a, b: z3.fpMul(RNE, a, b))

    def __rmul__(self, o):
        return self._bin(o, lambda a, b: z3.fpMul(RNE, a, b), True)

    def __truediv__(self, o):
        return self._bin(o, lambda a, b: z3.fpDiv(RNE, a, b))

    def __rtruediv__(self, o):
        return self._bin(o, lambda a, b: z3.fpDiv(RNE, a, b), True)

    def __neg__(self):
        return SymFP(z3.fpNeg(self.e))

    def __abs__(self):
        return SymFP(z3.fpAbs(self.e))

    def _cmp(self, o, f):
        try:
            b = self._lift(o)
        except TypeError:
            return NotImplemented
        return SymBool(f(self.e, b))

    def __lt__(self, o):
        return self._cmp(o, z3.fpLT)

    def __le__(self, o):
        return self._cmp(o, z3.fpLEQ)

    def __gt__(self, o):
        return self._cmp(o, z3.fpGT)

    def __ge__(self, o):
        return self._cmp(o, z3.fpGEQ)

    def __eq__(self, o):
        return self._cmp(o, z3.fpEQ)

    def __ne__(self, o):
        return self._cmp(o, z3.fpNEQ)
    __hash__ = Sym.__hash__

    def to(self, sort):
        if sort == self.sort:
            return self
        return SymFP(z3.fpToFP(RNE, self.e, sort))

    def __mod__(self, o):
        # only x % 1.0 (fractional part, python floor-mod semantics)
        if (isinstance(o, (int, float)) or _is_float_like(o)) and \
                float(o) == 1.0:
            fl = z3.fpRoundToIntegral(z3.RTN(), self.e)
            return SymFP(z3.fpSub(RNE, self.e, fl))
        return NotImplemented

    def __int__(self):
        return int(fp_trunc_to_bv(self))

    def astype(self, dtype, *a, **k):
        import numpy as np
        dt = np.dtype(dtype)
        if dt.kind == 'f':
            return self.to(F32 if dt.itemsize == 4 else F64)
        if dt.kind in 'iu':
            return fp_trunc_to_bv(self)
        return self

    def __bool__(self):
        return cur().branch(z3.Not(z3.fpIsZero(self.e)))



class SymBVInt(Sym):
    """machine integer (numpy int32 semantics: wraps) as a z3 bit-vector;
    used where an integer is produced from / converted to IEEE floats
    (fpToSBV / fpSignedToFP are fast, Int<->FP through reals is not)"""
    __slots__ = ()
    BITS = 32

    @classmethod
    def lift(cls, o):
        if isinstance(o, SymBVInt):
            return o.e
        if _is_int_like(o):
            return z3.BitVecVal(int(o), cls.BITS)
        raise TypeError(o)

    def _bin(self, o, f, rev=False):
        try:
            b = self.lift(o)
        except TypeError:
            if isinstance(o, SymFP) or _is_float_like(o):
                # numpy: int32 op float32 -> float (value-preserving here)
                import numpy as np
                if isinstance(o, SymFP):
                    srt = o.sort
                elif isinstance(o, np.float32):
                    srt = F32       # numpy: small-int array op float32
                else:
                    # an object-array loop hands float32 operands over as
                    # python floats: the harness states the float width of
                    # the code under analysis
                    srt = getattr(CUR, 'int_float_sort', None)
                    if srt is None:
                        srt = F64
                me = SymFP(z3.fpSignedToFP(RNE, self.e, srt))
                other = o if isinstance(o, SymFP) else \
                    SymFP(z3.FPVal(float(o), srt))
                return NotImplemented if f is None else \
                    (f(other, me) if rev else f(me, other))
            return NotImplemented
        a = self.e
        if rev:
            a, b = b, a
        return SymBVInt(f(a, b))

    def __add__(self, o):
        return self._bin(o, lambda a, b: a + b)

    def __radd__(self, o):
        return self._bin(o, lambda a, b: a + b, True)

    def __sub__(self, o):
        return self._bin(o, lambda a, b: a - b)

    def __rsub__(self, o):
        return self._bin(o, lambda a, b: a - b, True)

    def __mul__(self, o):
        return self._bin(o, lambda a, b: a * b)
    __rmul__ = __mul__

    def __neg__(self):
        return SymBVInt(-self.e)

    def __mod__(self, o):
        # python/numpy floor modulo for a positive constant divisor
        if _is_int_like(o) and int(o) > 0:
            b = z3.BitVecVal(int(o), self.BITS)
            r = z3.SRem(self.e, b)
            return SymBVInt(z3.If(r < 0, r + b, r))
        return NotImplemented

    def _cmp(self, o, f):
        try:
            return SymBool(f(self.e, self.lift(o)))
        except TypeError:
            return NotImplemented

    def __lt__(self, o):
        return self._cmp(o, lambda a, b: a < b)

    def __le__(self, o):
        return self._cmp(o, lambda a, b: a <= b)

    def __gt__(self, o):
        return self._cmp(o, lambda a, b: a > b)

    def __ge__(self, o):
        return self._cmp(o, lambda a, b: a >= b)

    def __eq__(self, o):
        return self._cmp(o, lambda a, b: a == b)

    def __ne__(self, o):
        return self._cmp(o, lambda a, b: a != b)
    __hash__ = Sym.__hash__

    def to_fp(self, sort):
        return SymFP(z3.fpSignedToFP(RNE, self.e, sort))

    def __rpow__(self, base):
        # constant ** n: the exponent is needed concretely (forks)
        return base ** int(self)

    def astype(self, dtype, *a, **k):
        import numpy as np
        dt = np.dtype(dtype)
        if dt.kind == 'f':
            return self.to_fp(F32 if dt.itemsize == 4 else F64)
        return self

    def __index__(self):
        return cur().concretize_bv(self.e)
    __int__ = __index__

    def __bool__(self):
        return cur().branch(self.e != 0)


def fp_trunc_to_bv(x, bits=32):
    """C cast float -> int32 (truncation toward zero) for in-range values"""
    return SymBVInt(z3.fpToSBV(z3.RTZ(), x.e, z3.BitVecSort(bits)))

# --------------------------------------------------------------------------
# explorer


class PathResult(object):
    def __init__(self):
        self.status = None  # ok | infeasible | truncated | unknown | exception
        self.value = None
        self.decisions = None
        self.queries = 0
        self.solver_s = 0.0
        self.exc = None


def explore(fn, max_paths=2000, max_decisions=400, query_timeout_ms=20000,
            seed=0, wall_budget_s=None, on_path=None):
    """run fn(ctx) over all feasible paths (DFS by re-execution).
    fn returns any value; it may raise PathAbort/PathLimit.  Library
    exceptions must be handled inside fn (they are part of the semantics)."""
    global CUR
    work = [[]]
    results = []
    t0 = time.time()
    exhausted = True
    while work:
        if len(results) >= max_paths or (
                wall_budget_s is not None and time.time() - t0 > wall_budget_s):
            exhausted = False
            break
        prefix = work.pop()
        ctx = Ctx(prefix, max_decisions, query_timeout_ms, seed)
        pr = PathResult()
        prev = CUR
        CUR = ctx
        try:
            try:
                pr.value = fn(ctx)
                pr.status = 'unknown' if ctx.unknown_feasibility else 'ok'
            except PathAbort:
                pr.status = 'infeasible'
            except PathLimit as ex:
                pr.status = 'truncated'
                pr.exc = str(ex)
            except SolverUnknown as ex:
                pr.status = 'unknown'
                pr.exc = str(ex)
        finally:
            CUR = prev
        pr.decisions = ctx.decisions
        pr.queries = ctx.queries
        pr.solver_s = ctx.solver_s
        pr.notes = ctx.notes
        work.extend(ctx.pending)
        results.append(pr)
        if on_path is not None:
            on_path(pr)
    return results, exhausted
