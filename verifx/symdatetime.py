"""symdatetime -- the part of the datetime module the anchored code uses, over
symbolic integers.  An instant is an integer count of microseconds since
0001-01-01T00:00 (proleptic Gregorian, CPython's ordinal 1); a timedelta an
integer count of microseconds.  Civil <-> ordinal conversions are CPython's own
algorithms (datetime.py: _ymd2ord/_ord2ymd) written with floor div/mod by
constants, so they are linear integer arithmetic for z3.

timedelta(**{unit: float}) is the round-half-even of the exact value in
microseconds (CPython documents exactly that; the float64 intermediate error of
its implementation is not modelled -- "real" float mode)."""
import datetime as _dt
import fractions
import types

import numpy as np
import z3

from . import symx
from .symx import SymInt, SymReal, SymBool, Sym

US_DAY = 86400 * 10 ** 6

_DBM = [0, 31, 59, 90, 120, 151, 181, 212, 243, 273, 304, 334]  # non-leap


def _is_sym(x):
    return isinstance(x, Sym)


def _I(x):
    """to SymInt / int"""
    if isinstance(x, (SymInt, int)) and not isinstance(x, bool):
        return x
    if isinstance(x, (np.integer,)):
        return int(x)
    if isinstance(x, SymReal):
        raise TypeError('integer argument expected, got float')
    if isinstance(x, float) and x == int(x):
        raise TypeError('integer argument expected, got float')
    if hasattr(x, '__symint__'):
        return x.__symint__()
    return int(x)


def _ite(c, a, b):
    """symbolic if-then-else on ints"""
    if isinstance(c, SymBool):
        ka, ea = symx._num(a)
        kb, eb = symx._num(b)
        return SymInt(z3.If(c.e, ea, eb))
    return a if c else b


# (first year, last year): when set by a harness, years are known to lie in
# this range and the calendar functions use tables over it (piecewise
# constant / piecewise linear with constant break points) instead of the
# 400/100/4/1-year division arithmetic, which the solver handles far better.
# A value outside the range aborts the path (the bound is a stated assumption).
YEAR_RANGE = None
FORK_YEARS = False


def _dby_c(y):
    y1 = y - 1
    return y1 * 365 + y1 // 4 - y1 // 100 + y1 // 400


def _leap_c(y):
    return y % 4 == 0 and (y % 100 != 0 or y % 400 == 0)


def _assume_year(y):
    lo, hi = YEAR_RANGE
    symx.cur().require(z3.And(y.e >= lo, y.e <= hi),
                       'year outside the declared range %d..%d' % (lo, hi))


def is_leap(y):
    if _is_sym(y) and YEAR_RANGE:
        lo, hi = YEAR_RANGE
        _assume_year(y)
        return SymBool(z3.Or(*[y.e == k for k in range(lo, hi + 1)
                               if _leap_c(k)]))
    if _is_sym(y):
        return SymBool(z3.And(y.e % 4 == 0,
                              z3.Or(y.e % 100 != 0, y.e % 400 == 0)))
    return y % 4 == 0 and (y % 100 != 0 or y % 400 == 0)


def days_before_year(y):
    if _is_sym(y) and YEAR_RANGE:
        lo, hi = YEAR_RANGE
        _assume_year(y)
        e = z3.IntVal(_dby_c(hi))
        for k in range(hi - 1, lo - 1, -1):
            e = z3.If(y.e == k, _dby_c(k), e)
        return SymInt(e)
    y1 = y - 1
    return y1 * 365 + y1 // 4 - y1 // 100 + y1 // 400


def days_before_month(y, m):
    if not _is_sym(m):
        base = _DBM[m - 1]
        if m > 2:
            return base + _ite(is_leap(y), 1, 0) if _is_sym(y) else \
                base + (1 if is_leap(y) else 0)
        return base
    e = z3.IntVal(_DBM[11])
    for k in range(10, -1, -1):
        e = z3.If(m.e == k + 1, _DBM[k], e)
    lp = is_leap(y)
    lpe = lp.e if isinstance(lp, SymBool) else z3.BoolVal(bool(lp))
    return SymInt(e + z3.If(z3.And(m.e > 2, lpe), 1, 0))


def ymd2ord(y, m, d):
    return days_before_year(y) + days_before_month(y, m) + d


AXIOMS = True


def ord2yj(n):
    """ordinal -> (year, day of year 1..366)"""
    if _is_sym(n) and YEAR_RANGE:
        lo, hi = YEAR_RANGE
        symx.cur().require(
            z3.And(n.e > _dby_c(lo), n.e <= _dby_c(hi + 1)),
            'date outside the declared year range %d..%d' % (lo, hi))
        if FORK_YEARS:
            # case split on the year (solver-driven): with the year concrete
            # everything downstream is linear
            for k in range(lo, hi + 1):
                if bool(SymBool(n.e <= _dby_c(k + 1))):
                    return k, n - _dby_c(k)
            raise symx.PathAbort()
        ye = z3.IntVal(hi)
        je = n.e - _dby_c(hi)
        for k in range(hi - 1, lo - 1, -1):
            c = n.e <= _dby_c(k + 1)
            ye = z3.If(c, k, ye)
            je = z3.If(c, n.e - _dby_c(k), je)
        return SymInt(ye), SymInt(je)
    n0 = n
    n = n - 1
    n400, n = n // 146097, n % 146097
    n100, n = n // 36524, n % 36524
    n4, n = n // 1461, n % 1461
    n1, n = n // 365, n % 365
    year = n400 * 400 + n100 * 100 + n4 * 4 + n1 + 1
    if _is_sym(year):
        last = SymBool(z3.Or(symx._num(n1)[1] == 4, symx._num(n100)[1] == 4))
        yy, jj = _ite(last, year - 1, year), _ite(last, 366, n + 1)
        if AXIOMS and symx.CUR is not None:
            # fact about this algorithm (exhaustively validated against
            # CPython for 1899-01-01..2101-12-31 by tools/
            # validate_symdatetime): it inverts year/day-of-year -> ordinal.
            # Stated to the solver so that it does not have to rediscover
            # the 400/100/4/1-year cycle arithmetic.
            ord0 = symx._num(n0)[1]
            symx.CUR.assume(z3.Implies(
                z3.And(ord0 >= 693231, ord0 <= 767375),
                z3.And(symx._num(days_before_year(yy))[1] + jj.e == ord0,
                       jj.e >= 1, jj.e <= 366)), check=False)
        return yy, jj
    if n1 == 4 or n100 == 4:
        return year - 1, 366
    return year, n + 1


def yj2md(y, j):
    """(year, day of year) -> (month, day)"""
    if not _is_sym(y) and not _is_sym(j):
        d = _dt.date(y, 1, 1) + _dt.timedelta(days=j - 1)
        return d.month, d.day
    lp = is_leap(y)
    lpe = lp.e if isinstance(lp, SymBool) else z3.BoolVal(bool(lp))
    je = symx._num(j)[1]
    m = z3.IntVal(1)
    dbm = z3.IntVal(0)
    for k in range(1, 12):
        start = z3.IntVal(_DBM[k]) + z3.If(z3.And(lpe, k >= 2), 1, 0)
        cond = je > start
        m = z3.If(cond, k + 1, m)
        dbm = z3.If(cond, start, dbm)
    return SymInt(m), SymInt(je - dbm)


class tzinfo(object):
    pass


class timezone(tzinfo):
    def __init__(self, offset=None, name=None):
        self.offset = offset if offset is not None else timedelta(0)

    def utcoffset(self, dt):
        return self.offset

    def __eq__(self, o):
        return isinstance(o, timezone) and _same(self.offset.us, o.offset.us)

    def __hash__(self):
        return 1

    def __repr__(self):
        return 'symdatetime.timezone.utc'


def _same(a, b):
    r = a == b
    return bool(r)


def _round_half_even_us(x):
    """exact value in microseconds (int/Fraction/float/SymReal/SymInt)"""
    if isinstance(x, SymInt) or (isinstance(x, int) and
                                 not isinstance(x, bool)):
        return x
    if isinstance(x, SymReal):
        return x.round_half_even()
    f = fractions.Fraction(x)
    return round(f)


class timedelta(object):
    # sec: whole seconds when the value is known to be a whole number of
    # seconds (us == sec * 10**6 structurally), else None
    __slots__ = ('us', 'sec')

    def __init__(self, days=0, seconds=0, microseconds=0, milliseconds=0,
                 minutes=0, hours=0, weeks=0):
        tot = 0
        for val, mult in ((weeks, 7 * US_DAY), (days, US_DAY),
                          (hours, 3600 * 10 ** 6), (minutes, 60 * 10 ** 6),
                          (seconds, 10 ** 6), (milliseconds, 1000),
                          (microseconds, 1)):
            if isinstance(val, (np.floating, float)):
                val = fractions.Fraction(float(val))
            elif isinstance(val, np.integer):
                val = int(val)
            elif hasattr(val, '__symint__'):
                val = val.__symint__()
            tot = tot + val * mult
        self.us = _round_half_even_us(tot)
        # whole seconds, when every component is structurally a whole
        # number of seconds (integers, or exact ratios n/d with d dividing
        # the unit's length in seconds)
        sec = 0
        for val, mult in ((weeks, 604800), (days, 86400), (hours, 3600),
                          (minutes, 60), (seconds, 1)):
            if isinstance(val, (np.floating, float)):
                val = fractions.Fraction(float(val))
            if hasattr(val, '__symint__'):
                val = val.__symint__()
            if isinstance(val, (int, np.integer, SymInt)) and \
                    not isinstance(val, bool):
                sec = sec + (int(val) if not _is_sym(val) else val) * mult
                continue
            r = symx._ratio_of(val)
            if r is not None and mult % r[1] == 0:
                sec = sec + SymInt(r[0]) * (mult // r[1])
                continue
            sec = None
            break
        if sec is not None and (microseconds != 0 or milliseconds != 0):
            sec = None
        self.sec = sec

    @classmethod
    def _of(cls, us, sec=None):
        o = object.__new__(cls)
        o.us = us
        o.sec = sec if sec is not None else (
            us // 10 ** 6 if isinstance(us, int) and us % 10 ** 6 == 0
            else None)
        return o

    def total_seconds(self):
        if self.sec is not None and _is_sym(self.sec):
            return SymReal(z3.ToReal(self.sec.e), (self.sec.e, 1))
        if _is_sym(self.us):
            return SymReal(z3.ToReal(self.us.e) / 10 ** 6,
                           (self.us.e, 10 ** 6))
        return self.us / 10 ** 6

    @property
    def days(self):
        return self.us // US_DAY

    @property
    def seconds(self):
        return (self.us % US_DAY) // 10 ** 6

    @property
    def microseconds(self):
        return self.us % 10 ** 6

    def __add__(self, o):
        if isinstance(o, timedelta):
            return timedelta._of(self.us + o.us, _secsum(self.sec, o.sec))
        if isinstance(o, np.ndarray):
            return _arr([self + x for x in o.reshape(-1)], o.shape)
        return NotImplemented
    __radd__ = __add__

    def __sub__(self, o):
        if isinstance(o, timedelta):
            return timedelta._of(self.us - o.us,
                                 _secsum(self.sec, o.sec, -1))
        return NotImplemented

    def __neg__(self):
        return timedelta._of(-self.us, None if self.sec is None
                             else -self.sec)

    def __mul__(self, o):
        if isinstance(o, np.ndarray):
            return _arr([self * x for x in o.reshape(-1)], o.shape)
        if isinstance(o, (int, np.integer, SymInt)) and \
                not isinstance(o, bool):
            k = int(o) if not _is_sym(o) else o
            return timedelta._of(self.us * k, None if self.sec is None
                                 else self.sec * k)
        if isinstance(o, (float, np.floating, SymReal)):
            v = self.us * (fractions.Fraction(float(o))
                           if not _is_sym(o) else o)
            return timedelta._of(_round_half_even_us(v))
        return NotImplemented
    __rmul__ = __mul__

    def __truediv__(self, o):
        if isinstance(o, timedelta):
            if _is_sym(self.us) or _is_sym(o.us):
                return (self.us + 0) / (o.us + 0) if _is_sym(self.us) else \
                    self.us / o.us
            return self.us / o.us
        if isinstance(o, (int, np.integer)) and not isinstance(o, bool):
            if _is_sym(self.us):
                q = SymReal(z3.ToReal(self.us.e) / int(o))
                return timedelta._of(q.round_half_even())
            return timedelta._of(round(fractions.Fraction(self.us, int(o))))
        if isinstance(o, (float, np.floating)):
            v = fractions.Fraction(1) / fractions.Fraction(float(o))
            return self * float(v)
        return NotImplemented

    def __floordiv__(self, o):
        if isinstance(o, timedelta):
            return self.us // o.us
        return timedelta._of(self.us // o)

    def _cmp(self, o, f):
        if not isinstance(o, timedelta):
            return NotImplemented
        if self.sec is not None and o.sec is not None:
            return f(self.sec, o.sec)
        return f(self.us, o.us)

    def __eq__(self, o):
        if isinstance(o, np.ndarray):
            return np.array([self == x for x in o.reshape(-1)],
                            dtype=object).reshape(o.shape)
        return self._cmp(o, lambda a, b: a == b)

    def __ne__(self, o):
        return self._cmp(o, lambda a, b: a != b)

    def __lt__(self, o):
        return self._cmp(o, lambda a, b: a < b)

    def __le__(self, o):
        return self._cmp(o, lambda a, b: a <= b)

    def __gt__(self, o):
        return self._cmp(o, lambda a, b: a > b)

    def __ge__(self, o):
        return self._cmp(o, lambda a, b: a >= b)

    def __hash__(self):
        return 0

    def __bool__(self):
        return bool(self.us != 0)

    def __repr__(self):
        return 'symtimedelta(us=%r)' % (self.us,)


def _whole_seconds(us):
    """seconds if us is structurally a multiple of 10**6, else None"""
    if isinstance(us, int):
        return us // 10 ** 6 if us % 10 ** 6 == 0 else None
    if isinstance(us, SymInt):
        e = z3.simplify(us.e)
        if e.decl().kind() == z3.Z3_OP_MUL and e.num_args() == 2:
            a, b = e.arg(0), e.arg(1)
            if z3.is_int_value(a) and a.as_long() % 10 ** 6 == 0:
                return SymInt(b * (a.as_long() // 10 ** 6))
    return None


def _secsum(a, b, sign=1):
    if a is None or b is None:
        return None
    return a + b if sign > 0 else a - b


def _arr(items, shape):
    a = np.empty(len(items), dtype=object)
    for i, x in enumerate(items):
        a[i] = x
    return a.reshape(shape)


class SymStrftime(object):
    """result of strftime on a symbolic instant: only int() of the purely
    numeric formats the library uses"""

    def __init__(self, val):
        self.val = val

    def __symint__(self):
        return self.val

    def __int__(self):
        return int(self.val)


class datetime(object):
    __slots__ = ('us', 'tzinfo', 'sec')

    def __init__(self, year, month=None, day=None, hour=0, minute=0,
                 second=0, microsecond=0, tzinfo=None):
        y, m, d = _I(year), _I(month), _I(day)
        H, M, S, U = _I(hour), _I(minute), _I(second), _I(microsecond)
        self._validate(y, m, d, H, M, S, U)
        o = ymd2ord(y, m, d)
        self.us = (o - 1) * US_DAY + H * 3600 * 10 ** 6 + M * 60 * 10 ** 6 \
            + S * 10 ** 6 + U
        self.sec = (o - 1) * 86400 + H * 3600 + M * 60 + S \
            if isinstance(U, int) and U == 0 else None
        self.tzinfo = tzinfo

    @staticmethod
    def _validate(y, m, d, H, M, S, U):
        def chk(c, msg):
            if isinstance(c, SymBool):
                if not bool(c):
                    raise ValueError(msg)
            elif not c:
                raise ValueError(msg)
        chk((y >= 1) & (y <= 9999) if _is_sym(y) else 1 <= y <= 9999,
            'year is out of range')
        chk((m >= 1) & (m <= 12) if _is_sym(m) else 1 <= m <= 12,
            'month must be in 1..12')
        if _is_sym(y) or _is_sym(m) or _is_sym(d):
            dim = days_before_month(y, m + 1 if not _is_sym(m) else m) \
                if False else None
            # days in month: via ordinal difference
            if _is_sym(m):
                nxt = _ite(m == 12, days_before_month(y, 12) + 31,
                           days_before_month(y, _ite(m == 12, 12, m + 1)))
            else:
                nxt = days_before_month(y, 12) + 31 if m == 12 else \
                    days_before_month(y, m + 1)
            dim = nxt - days_before_month(y, m)
            c = (d >= 1) & (d <= dim) if _is_sym(d) or _is_sym(dim) else \
                1 <= d <= dim
            chk(c, 'day is out of range for month')
        else:
            _dt.date(y, m, d)
        for v, hi, nm in ((H, 23, 'hour'), (M, 59, 'minute'),
                          (S, 59, 'second'), (U, 999999, 'microsecond')):
            chk((v >= 0) & (v <= hi) if _is_sym(v) else 0 <= v <= hi,
                nm + ' out of range')

    @classmethod
    def _of(cls, us, tz=None, sec=None):
        o = object.__new__(cls)
        o.us = us
        o.tzinfo = tz
        o.sec = sec if sec is not None else (
            us // 10 ** 6 if isinstance(us, int) and us % 10 ** 6 == 0
            else None)
        return o

    @classmethod
    def _from_real(cls, r):
        tz = None
        if r.tzinfo is not None:
            off = r.utcoffset()
            tz = timezone(timedelta._of(
                (off.days * 86400 + off.seconds) * 10 ** 6 +
                off.microseconds))
        o = cls(r.year, r.month, r.day, r.hour, r.minute, r.second,
                r.microsecond, tz)
        return o

    def _real(self):
        if _is_sym(self.us):
            raise TypeError('symbolic datetime')
        base = _dt.datetime(1, 1, 1) + _dt.timedelta(microseconds=self.us)
        if self.tzinfo is not None:
            base = base.replace(tzinfo=_dt.timezone(_dt.timedelta(
                microseconds=int(self.tzinfo.offset.us))))
        return base

    # ---- fields
    def _ord(self):
        if self.sec is not None:
            return self.sec // 86400 + 1
        return self.us // US_DAY + 1

    def _yj(self):
        return ord2yj(self._ord())

    @property
    def year(self):
        return self._yj()[0]

    @property
    def month(self):
        y, j = self._yj()
        return yj2md(y, j)[0]

    @property
    def day(self):
        y, j = self._yj()
        return yj2md(y, j)[1]

    @property
    def hour(self):
        if self.sec is not None:
            return (self.sec % 86400) // 3600
        return (self.us % US_DAY) // (3600 * 10 ** 6)

    @property
    def minute(self):
        if self.sec is not None:
            return (self.sec % 3600) // 60
        return (self.us % (3600 * 10 ** 6)) // (60 * 10 ** 6)

    @property
    def second(self):
        if self.sec is not None:
            return self.sec % 60
        return (self.us % (60 * 10 ** 6)) // 10 ** 6

    @property
    def microsecond(self):
        if self.sec is not None:
            return 0
        return self.us % 10 ** 6

    def replace(self, tzinfo=True, **kw):
        if kw:
            return self._from_real(self._real().replace(**kw))
        return datetime._of(self.us, None if tzinfo is None else
                            (self.tzinfo if tzinfo is True else tzinfo),
                            self.sec)

    def astimezone(self, tz=None):
        if self.tzinfo is None:
            return datetime._of(self.us, tz)
        off = self.tzinfo.offset.us
        noff = tz.offset.us if tz is not None else 0
        return datetime._of(self.us - off + noff, tz)

    def utcoffset(self):
        return None if self.tzinfo is None else self.tzinfo.offset

    def timetuple(self):
        return self._real().timetuple()

    def isoformat(self, *a):
        return self._real().isoformat(*a)

    def strftime(self, fmt):
        if not _is_sym(self.us):
            return self._real().strftime(fmt)
        if fmt == '%H%M%S':
            return SymStrftime(self.hour * 10000 + self.minute * 100 +
                               self.second)
        y, j = self._yj()
        if fmt == '%Y%j':
            return SymStrftime(y * 1000 + j)
        if fmt == '%Y':
            return SymStrftime(y)
        if fmt == '%j':
            return SymStrftime(j)
        raise NotImplementedError('strftime(%r) on a symbolic instant' % fmt)

    @classmethod
    def strptime(cls, text, fmt):
        from . import loader
        if isinstance(text, loader.SymText):
            if fmt == '%Y%j %H%M%S%z' and text.kind == 'fmt' and \
                    text.fmt in ('%07d %06d+0000', '%7d %06d+0000'):
                jdate, hhmmss = text.args
                jdate, hhmmss = _I(jdate), _I(hhmmss)
                y, j = jdate // 1000, jdate % 1000
                H, M, S = hhmmss // 10000, hhmmss // 100 % 100, hhmmss % 100
                cls._validate(y, 1, 1, H, M, S, 0)
                lp = is_leap(y)
                ny = _ite(lp, 366, 365) if isinstance(lp, SymBool) else \
                    (366 if lp else 365)
                ok = (j >= 1) & (j <= ny) if (_is_sym(j) or _is_sym(ny)) \
                    else 1 <= j <= ny
                if not bool(ok):
                    raise ValueError('day of year out of range')
                o = days_before_year(y) + j
                sec = (o - 1) * 86400 + H * 3600 + M * 60 + S
                return cls._of(sec * 10 ** 6, timezone.utc, sec)
            raise NotImplementedError('strptime of symbolic text %r' % fmt)
        return cls._from_real(_dt.datetime.strptime(text, fmt))

    @classmethod
    def now(cls, tz=None):
        return cls._from_real(_dt.datetime(2000, 1, 1))

    today = now
    utcnow = now

    # ---- arithmetic
    def __add__(self, o):
        if isinstance(o, timedelta):
            return datetime._of(self.us + o.us, self.tzinfo,
                                _secsum(self.sec, o.sec))
        if isinstance(o, np.ndarray):
            return _arr([self + x for x in o.reshape(-1)], o.shape)
        return NotImplemented
    __radd__ = __add__

    def __sub__(self, o):
        if isinstance(o, timedelta):
            return datetime._of(self.us - o.us, self.tzinfo,
                                _secsum(self.sec, o.sec, -1))
        if isinstance(o, datetime):
            if (self.tzinfo is None) != (o.tzinfo is None):
                raise TypeError("can't subtract offset-naive and "
                                "offset-aware datetimes")
            a = self.us - (self.tzinfo.offset.us if self.tzinfo else 0)
            b = o.us - (o.tzinfo.offset.us if o.tzinfo else 0)
            sec = None
            if self.sec is not None and o.sec is not None and \
                    (self.tzinfo is None or
                     self.tzinfo.offset.sec is not None) and \
                    (o.tzinfo is None or o.tzinfo.offset.sec is not None):
                sec = (self.sec - (self.tzinfo.offset.sec
                                   if self.tzinfo else 0)) - \
                    (o.sec - (o.tzinfo.offset.sec if o.tzinfo else 0))
            return timedelta._of(a - b, sec)
        if isinstance(o, np.ndarray):
            return _arr([self - x for x in o.reshape(-1)], o.shape)
        return NotImplemented

    def _utc(self):
        return self.us - (self.tzinfo.offset.us if self.tzinfo else 0)

    def _utc_sec(self):
        """whole seconds since 0001-01-01 UTC when known exactly"""
        if self.sec is None:
            return None
        if self.tzinfo is None:
            return self.sec
        if self.tzinfo.offset.sec is None:
            return None
        return self.sec - self.tzinfo.offset.sec

    def _cmp(self, o, f):
        if not isinstance(o, datetime):
            return NotImplemented
        a, b = self._utc_sec(), o._utc_sec()
        if a is not None and b is not None:
            return f(a, b)
        return f(self._utc(), o._utc())

    def __eq__(self, o):
        return self._cmp(o, lambda a, b: a == b)

    def __ne__(self, o):
        return self._cmp(o, lambda a, b: a != b)

    def __lt__(self, o):
        return self._cmp(o, lambda a, b: a < b)

    def __le__(self, o):
        return self._cmp(o, lambda a, b: a <= b)

    def __gt__(self, o):
        return self._cmp(o, lambda a, b: a > b)

    def __ge__(self, o):
        return self._cmp(o, lambda a, b: a >= b)

    def __hash__(self):
        return 0

    def __repr__(self):
        if _is_sym(self.us):
            return 'symdatetime(us=%r)' % (self.us,)
        return 'sym' + repr(self._real())


timezone.utc = timezone(timedelta._of(0))


class date(object):
    def __init__(self, year, month, day):
        self._d = datetime(year, month, day)

    def __sub__(self, o):
        if isinstance(o, date):
            return self._d - o._d
        return NotImplemented

    @property
    def year(self):
        return self._d.year


def make_module():
    m = types.ModuleType('datetime')
    m.datetime = datetime
    m.timedelta = timedelta
    m.date = date
    m.timezone = timezone
    m.tzinfo = tzinfo
    m.MINYEAR, m.MAXYEAR = 1, 9999
    return m


def instant_us(y, m, d, H=0, M=0, S=0):
    """reference (independent of the classes above): microseconds since
    0001-01-01 of a concrete civil time, via the real datetime module"""
    r = _dt.datetime(y, m, d, H, M, S) - _dt.datetime(1, 1, 1)
    return (r.days * 86400 + r.seconds) * 10 ** 6 + r.microseconds
