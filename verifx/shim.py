"""numpy shim for twin modules.

The shim *is* the real numpy (same classes, same indexing/view/broadcast
machinery -- so aliasing and advanced-indexing semantics are numpy's own, not a
re-implementation) except for the handful of functions whose C loops cannot
operate on object arrays holding symbolic scalars.  Those are re-implemented
here element-wise over the symbolic scalar operations, and fall through to the
real function whenever no symbolic element is involved.  API surface fidelity:
a name exists here iff the installed numpy has it (``np.in1d``,
``ndarray.tostring`` ... are absent in numpy 2.5 and therefore absent here).
"""
import math
import types

import numpy as _np

from . import symx
from .symx import Sym, SymReal, SymInt, SymBool, SymNaN, NAN


def _has_sym(a):
    if isinstance(a, (Sym, SymNaN)):
        return True
    if isinstance(a, _np.ndarray):
        if a.dtype != object:
            return False
        d = a.data if False else a
        for x in _np.ma.getdata(d).flat:
            if isinstance(x, (Sym, SymNaN)):
                return True
        return False
    if isinstance(a, (list, tuple)):
        return any(_has_sym(x) for x in a)
    return False


def _needs(a):
    """does this argument need the element-wise path? (symbolic element or an
    object-dtype array, for which numpy has no numeric loops)"""
    if isinstance(a, _np.ndarray) and a.dtype == object:
        return True
    return _has_sym(a)


def _objarr(x):
    if isinstance(x, _np.ndarray):
        return x
    a = _np.empty((), dtype=object)
    if isinstance(x, (list, tuple)):
        return _np.array(x, dtype=object) if _has_sym(x) else _np.asarray(x)
    a[()] = x
    return a


def _map(fn, a):
    """apply fn to every element; keeps masks and shape; returns object array
    (or scalar for 0-d non-array input)"""
    scalar = not isinstance(a, _np.ndarray)
    arr = _objarr(a)
    data = _np.ma.getdata(arr)
    out = _np.empty(data.shape, dtype=object)
    of = out.reshape(-1)
    for i, x in enumerate(data.reshape(-1)):
        of[i] = fn(x)
    if isinstance(arr, _np.ma.MaskedArray):
        out = _np.ma.MaskedArray(out, mask=_np.ma.getmaskarray(arr).copy())
    elif out.ndim:
        out = out.view(SymNDArray)
    if scalar and out.ndim == 0:
        return out[()]
    return out


def _isnan1(x):
    if isinstance(x, SymNaN):
        return True
    if isinstance(x, symx.SymFP):
        return bool(SymBool(symx.z3.fpIsNaN(x.e)))
    if isinstance(x, Sym):
        return False
    return bool(_np.isnan(x))


def _isfinite1(x):
    if isinstance(x, SymNaN):
        return False
    if isinstance(x, symx.SymFP):
        return bool(SymBool(symx.z3.Not(symx.z3.Or(symx.z3.fpIsNaN(x.e),
                                                   symx.z3.fpIsInf(x.e)))))
    if isinstance(x, Sym):
        return True
    return bool(_np.isfinite(x))


def _round1(x):
    if isinstance(x, (SymReal, SymInt, SymNaN)):
        return x.rint()
    return _np.round(x)


def _floor1(x):
    if isinstance(x, SymReal):
        return SymReal(symx.z3.ToReal(x.floor().e))
    if isinstance(x, (SymInt, SymNaN)):
        return x
    return _np.floor(x)


def _ceil1(x):
    if isinstance(x, SymReal):
        return SymReal(symx.z3.ToReal(x.ceil().e))
    if isinstance(x, (SymInt, SymNaN)):
        return x
    return _np.ceil(x)


def _trunc1(x):
    if isinstance(x, SymReal):
        return SymReal(symx.z3.ToReal(x.trunc().e))
    if isinstance(x, (SymInt, SymNaN)):
        return x
    return _np.trunc(x)


def _boolmap(fn, a):
    r = _map(fn, a)
    if isinstance(r, _np.ndarray):
        if isinstance(r, _np.ma.MaskedArray):
            return _np.ma.MaskedArray(_np.ma.getdata(r).astype(bool),
                                      mask=_np.ma.getmaskarray(r))
        return r.astype(bool)
    return bool(r)


def interp(x, xp, fp, left=None, right=None, period=None):
    """np.interp on symbolic data.  numpy documents that xp must be
    increasing and that no check is made; if the library passes a sequence
    that is not provably increasing the path stops with a Candidate (domain
    monitor) -- replay on the real numpy decides what the user sees."""
    if period is not None or not (_has_sym(x) or _has_sym(xp) or _has_sym(fp)):
        return _np.interp(x, xp, fp, left=left, right=right, period=period)
    xs = _objarr(x)
    xpl = list(_np.ma.getdata(_objarr(xp)).reshape(-1))
    fpl = list(_np.ma.getdata(_objarr(fp)).reshape(-1))
    if len(xpl) != len(fpl):
        raise ValueError('fp and xp are not of the same length.')
    if len(xpl) == 0:
        raise ValueError('array of sample points is empty')
    for a, b in zip(xpl[:-1], xpl[1:]):
        if not (a < b):
            raise symx.Candidate('np.interp called with non-increasing xp')

    def one(v):
        if isinstance(v, SymNaN):
            return NAN
        n = len(xpl)
        if v < xpl[0]:
            return fpl[0] if left is None else _lift_side(left)
        if v > xpl[-1]:
            return fpl[-1] if right is None else _lift_side(right)
        if n == 1:
            return fpl[0]
        for j in range(n - 1):
            if v < xpl[j + 1]:
                if v == xpl[j]:
                    return fpl[j]
                slope = (fpl[j + 1] - fpl[j]) / (xpl[j + 1] - xpl[j])
                return slope * (v - xpl[j]) + fpl[j]
        return fpl[-1]
    return _map(one, xs) if xs.ndim else one(xs[()])


def _lift_side(v):
    if isinstance(v, float) and math.isnan(v):
        return NAN
    if isinstance(v, _np.floating) and _np.isnan(v):
        return NAN
    return v


def masked_invalid(a, copy=True):
    arr = _objarr(a) if not isinstance(a, _np.ndarray) else a
    if arr.dtype != object:
        return _np.ma.masked_invalid(a, copy=copy)
    data = _np.ma.getdata(arr)
    inval = _np.zeros(data.shape, dtype=bool)
    fl = inval.reshape(-1)
    for i, x in enumerate(data.reshape(-1)):
        fl[i] = not _isfinite1(x)
    mask = inval | _np.ma.getmaskarray(arr)
    res = _np.ma.MaskedArray(data.copy() if copy else data, mask=mask)
    return res


def _median_lanes(a, axis, keepdims, use_mask):
    """median of an object-dtype array along one axis: python sort per lane
    (comparisons of symbolic scalars fork); use_mask: masked cells are left
    out (numpy.ma.median), otherwise the stored data are used as they are
    (numpy.median on a masked array ignores the mask)"""
    data = _np.ma.getdata(a)
    mask = _np.ma.getmaskarray(a) if use_mask else \
        _np.zeros(data.shape, dtype=bool)
    if axis is None:
        data, mask, axis_ = data.reshape(-1), mask.reshape(-1), 0
        oshape = (1,) * _np.ndim(a) if keepdims else ()
    else:
        axis_ = axis % data.ndim
        oshape = tuple(1 if i == axis_ else n
                       for i, n in enumerate(data.shape)) if keepdims else \
            tuple(n for i, n in enumerate(data.shape) if i != axis_)
    d2 = _np.moveaxis(data, axis_, -1)
    m2 = _np.moveaxis(mask, axis_, -1)
    lanes = d2.reshape(-1, d2.shape[-1]) if d2.ndim > 1 else d2.reshape(1, -1)
    lmask = m2.reshape(lanes.shape)
    out = _np.empty(lanes.shape[0], dtype=object)
    om = _np.zeros(lanes.shape[0], dtype=bool)
    for i in range(lanes.shape[0]):
        live = [x for x, m in zip(lanes[i], lmask[i]) if not m]
        if not live:
            out[i], om[i] = 0, True
            continue
        live = sorted(live)
        n = len(live)
        out[i] = live[n // 2] if n % 2 else (live[n // 2 - 1] +
                                             live[n // 2]) / 2
    out = out.reshape(oshape)
    om = om.reshape(oshape)
    if use_mask:
        return _np.ma.MaskedArray(out, mask=om)
    return out


def ma_median(a, axis=None, out=None, overwrite_input=False, keepdims=False):
    if not _needs(_np.ma.getdata(a)):
        return _np.ma.median(a, axis=axis, out=out,
                             overwrite_input=overwrite_input,
                             keepdims=keepdims)
    return _median_lanes(a, axis, keepdims, True)


def np_median(a, axis=None, out=None, overwrite_input=False, keepdims=False):
    if not _needs(_np.ma.getdata(a)):
        return _np.median(a, axis=axis, out=out,
                          overwrite_input=overwrite_input, keepdims=keepdims)
    return _median_lanes(a, axis, keepdims, False)


class _ArrMeta(type):
    """isinstance(x, shim.ndarray / shim.ma.MaskedArray) must accept the real
    numpy classes; library subclasses keep normal semantics"""
    def __instancecheck__(cls, obj):
        rb = cls.__dict__.get('_real_base')
        if rb is not None:
            return isinstance(obj, rb)
        return type.__instancecheck__(cls, obj)

    def __subclasscheck__(cls, sub):
        rb = cls.__dict__.get('_real_base')
        if rb is not None:
            return issubclass(sub, rb)
        return type.__subclasscheck__(cls, sub)


_MAMeta = _NDMeta = _ArrMeta


def _z3min(vals, lt):
    m = vals[0]
    for b in vals[1:]:
        if isinstance(m, Sym) or isinstance(b, Sym):
            c = (b < m) if lt else (b > m)
            if isinstance(c, SymBool):
                if isinstance(b, symx.SymFP) or isinstance(m, symx.SymFP):
                    fb = b if isinstance(b, symx.SymFP) else \
                        symx.SymFP(symx.z3.FPVal(float(b), m.sort))
                    fm = m if isinstance(m, symx.SymFP) else \
                        symx.SymFP(symx.z3.FPVal(float(m), b.sort))
                    m = symx.SymFP(symx.z3.If(c.e, fb.e, fm.e))
                    continue
                k, ea, eb = symx._coerce2(b, m)
                m = symx._wrap(k, symx.z3.If(c.e, ea, eb))
                continue
            m = b if c else m
        else:
            m = b if ((b < m) if lt else (b > m)) else m
    return m


def sym_sqrt(x):
    """principal square root of a symbolic real: fresh s with s>=0, s*s=x"""
    if not isinstance(x, Sym):
        return _np.sqrt(x)
    ctx = symx.cur()
    ctx.nfresh += 1
    s = symx.z3.Real('sqrt!%d' % ctx.nfresh)
    k, e = symx._num(x)
    if k == 'i':
        e = symx.z3.ToReal(e)
    ctx.assume(symx.z3.And(s >= 0, s * s == e), check=False)
    if not hasattr(ctx, 'sqrt_defs'):
        ctx.sqrt_defs = {}
    ctx.sqrt_defs[s.get_id()] = (s, e)
    return SymReal(s)


NARROW_INT_WRAP = False


def _nominal_dtype(a):
    """the machine type an object array stands for (tag set by astype or by
    the harness), looked up along the chain of views"""
    for _ in range(4):
        if a is None:
            return None
        dt = a.__dict__.get('_as_dtype') if hasattr(a, '__dict__') else None
        if dt is not None:
            return dt
        a = getattr(a, 'base', None)
    return None


class SymBytes(object):
    """what ndarray.tobytes() of symbolic cells stands for: a sequence of
    real byte strings and (dtype string, symbolic value) items"""

    def __init__(self, items):
        self.items = list(items)

    def __add__(self, o):
        if isinstance(o, SymBytes):
            return SymBytes(self.items + o.items)
        if isinstance(o, (bytes, bytearray)):
            return SymBytes(self.items + [bytes(o)])
        return NotImplemented

    def __radd__(self, o):
        if isinstance(o, (bytes, bytearray)):
            return SymBytes([bytes(o)] + self.items)
        return NotImplemented

    def __len__(self):
        return sum(len(i) if isinstance(i, bytes) else
                   _np.dtype(i[0]).itemsize for i in self.items)


class ByteSink(object):
    """file object that records what is written (bytes and SymBytes)"""

    def __init__(self):
        self.pieces = []
        self.closed = False

    def write(self, b):
        if isinstance(b, SymBytes):
            self.pieces += b.items
        else:
            self.pieces.append(bytes(b))

    def flush(self):
        pass

    def close(self):
        self.closed = True

    def words(self):
        """flat list of 4-byte words: int (big-endian signed) for real bytes,
        (dtype string, value) for symbolic items; None on misalignment"""
        import struct as _st
        out = []
        pend = b''
        for it in self.pieces:
            if isinstance(it, bytes):
                pend += it
                continue
            if len(pend) % 4:
                return None
            out += list(_st.unpack('>%di' % (len(pend) // 4), pend))
            pend = b''
            if _np.dtype(it[0]).itemsize != 4:
                return None
            out.append(it)
        if len(pend) % 4:
            return None
        out += list(_st.unpack('>%di' % (len(pend) // 4), pend))
        return out


class SymNDArray(_np.ndarray, metaclass=_NDMeta):
    """numpy.ndarray whose comparisons-based reductions (min/max) and
    sqrt-based ones (std) on *object* arrays of symbolic scalars build z3
    terms instead of forking on every comparison.  Numeric dtypes: numpy."""
    _real_base = _np.ndarray

    def _wrapped(self, o, r):
        """32-bit (or narrower) integer storage: when a harness switches
        NARROW_INT_WRAP on and this array stands for such integers, a product
        with a Python/numpy integer stays in that type and wraps, as numpy's
        does (the harness declares the type with `_as_dtype`)"""
        if not NARROW_INT_WRAP or self.dtype != object or \
                isinstance(o, bool) or not isinstance(o, (int, _np.integer)):
            return r
        dt = _nominal_dtype(self)
        if dt is None or dt.kind != 'i' or dt.itemsize > 4 or \
                not isinstance(r, _np.ndarray) or r.dtype != object:
            return r
        half = 2 ** (8 * dt.itemsize - 1)
        out = _np.empty(r.shape, dtype=object).view(SymNDArray)
        of = out.reshape(-1)
        for i, x in enumerate(_np.asarray(r, dtype=object).reshape(-1)):
            of[i] = (x + half) % (2 * half) - half
        out._as_dtype = dt
        return out

    def __mul__(self, o):
        return self._wrapped(o, _np.ndarray.__mul__(self, o))

    def __rmul__(self, o):
        return self._wrapped(o, _np.ndarray.__rmul__(self, o))

    def __array_finalize__(self, obj):
        # the machine type an object array stands for travels with its views
        # (np.asarray(x, dtype) returns x itself when the types agree)
        dt = getattr(obj, '_as_dtype', None)
        if dt is not None and self.dtype == object:
            self._as_dtype = dt

    def _red(self, kind, axis, keepdims, sup, **kw):
        if isinstance(self, _np.ma.MaskedArray):
            # library classes put the plain base first in their MRO
            return getattr(SymMaskedArray, kind)(self, axis=axis,
                                                 keepdims=keepdims, **kw)
        if self.dtype == object:
            kd = False if keepdims is _np._NoValue else keepdims
            if axis is None:
                n = self.size
            elif isinstance(axis, (tuple, list)):
                n = int(_np.prod([self.shape[a] for a in axis], dtype=int))
            else:
                n = self.shape[axis]
            if n == 0 and kind in ('min', 'max'):
                raise ValueError('zero-size array to reduction operation '
                                 '%simum which has no identity' % kind)
            r = SymMaskedArray._sym_reduce(self, kind, axis, kd, **kw)
            if isinstance(r, _np.ma.MaskedArray):
                d = _np.ma.getdata(r).view(_np.ndarray)
                m = _np.ma.getmaskarray(r)
                if m.any():
                    # empty lanes: numpy gives nan for mean/var/std
                    d = d.copy()
                    d[m] = NAN
                return d
            if r is _np.ma.masked:
                return NAN
            return r
        return sup()

    def view(self, *a, **k):
        if self.dtype == object and a and isinstance(a[0], (str, _np.dtype)):
            # reinterpreting bytes ('>S1', 'uint8'): the symbolic cells keep
            # standing for the numbers
            return self
        return _np.ndarray.view(self, *a, **k)

    def astype(self, dtype, *a, **k):
        out = self._astype(dtype, *a, **k)
        if out.dtype == object and isinstance(out, SymNDArray):
            # remembered for tobytes()/tofile(): the machine type the cells
            # stand for
            out._as_dtype = _np.dtype(dtype)
        return out

    def tobytes(self, order='C'):
        if self.dtype != object:
            return _np.ndarray.tobytes(self, order)
        dt = getattr(self, '_as_dtype', None)
        if dt is None:
            raise TypeError('bytes of an object array whose machine type is '
                            'unknown')
        return SymBytes([(dt.str, x) for x in self.reshape(-1)])

    def tofile(self, fid, sep='', format='%s'):
        if hasattr(fid, 'pieces'):
            fid.write(self.tobytes())
            return
        return _np.ndarray.tofile(self, fid, sep, format)

    def _astype(self, dtype, *a, **k):
        if self.dtype == object and _np.dtype(dtype).kind in 'fiu' and \
                any(isinstance(x, (symx.SymFP, symx.SymBVInt))
                    for x in self.flat):
            out = _np.empty(self.shape, dtype=object).view(SymNDArray)
            of = out.reshape(-1)
            for i, x in enumerate(self.reshape(-1)):
                of[i] = x.astype(dtype) if isinstance(x, Sym) else \
                    _np.dtype(dtype).type(x)
            return out
        if self.dtype == object and _np.dtype(dtype).kind == 'f' and \
                _has_sym(self):
            # a float cast of symbolic reals is the identity in "real" mode
            return self.copy()
        if self.dtype == object and _np.dtype(dtype).kind in 'iu' and \
                _has_sym(self):
            # integer cast: truncation toward zero, kept symbolic
            out = _np.empty(self.shape, dtype=object).view(SymNDArray)
            of = out.reshape(-1)
            for i, x in enumerate(self.reshape(-1)):
                if isinstance(x, SymReal):
                    of[i] = x.trunc()
                elif isinstance(x, Sym):
                    of[i] = x
                else:
                    of[i] = int(x)
            return out
        return _np.ndarray.astype(self, dtype, *a, **k)

    def min(self, axis=None, out=None, keepdims=_np._NoValue, **k):
        return self._red('min', axis, keepdims, lambda: _np.ndarray.min(
            self, axis, out, keepdims, **k))

    def max(self, axis=None, out=None, keepdims=_np._NoValue, **k):
        return self._red('max', axis, keepdims, lambda: _np.ndarray.max(
            self, axis, out, keepdims, **k))

    def mean(self, axis=None, dtype=None, out=None, keepdims=_np._NoValue,
             **k):
        return self._red('mean', axis, keepdims, lambda: _np.ndarray.mean(
            self, axis, dtype, out, keepdims, **k))

    def std(self, axis=None, dtype=None, out=None, ddof=0,
            keepdims=_np._NoValue, **k):
        return self._red('std', axis, keepdims, lambda: _np.ndarray.std(
            self, axis, dtype, out, ddof, keepdims, **k), ddof=ddof)

    def var(self, axis=None, dtype=None, out=None, ddof=0,
            keepdims=_np._NoValue, **k):
        return self._red('var', axis, keepdims, lambda: _np.ndarray.var(
            self, axis, dtype, out, ddof, keepdims, **k), ddof=ddof)


class SymMaskedArray(_np.ma.MaskedArray, metaclass=_MAMeta):
    """numpy.ma.MaskedArray whose reductions also work on object arrays of
    symbolic scalars (numpy.ma needs dtype-specific fill values for
    min/max and C loops for the rest).  For numeric dtypes everything is
    numpy's own."""
    _real_base = _np.ma.MaskedArray

    def _sym_reduce(self, kind, axis=None, keepdims=False, ddof=0):
        data = _np.ma.getdata(self)
        mask = _np.ma.getmaskarray(self)
        if axis is None:
            d2 = data.reshape(1, -1)
            m2 = mask.reshape(1, -1)
            oshape = (1,) * data.ndim if keepdims else ()
        elif isinstance(axis, (tuple, list)):
            # joint reduction over several axes
            axs = sorted(a if a >= 0 else a + data.ndim for a in axis)
            keep = [i for i in range(data.ndim) if i not in axs]
            d2 = _np.transpose(data, keep + axs)
            m2 = _np.transpose(mask, keep + axs)
            nl = int(_np.prod([data.shape[i] for i in keep], dtype=int)) \
                if keep else 1
            d2 = d2.reshape(nl, -1)
            m2 = m2.reshape(d2.shape)
            oshape = tuple(1 if i in axs else data.shape[i]
                           for i in range(data.ndim)) if keepdims else \
                tuple(data.shape[i] for i in keep)
        else:
            ax = axis if axis >= 0 else axis + data.ndim
            d2 = _np.moveaxis(data, ax, -1)
            m2 = _np.moveaxis(mask, ax, -1)
            oshape = list(data.shape)
            if keepdims:
                oshape[ax] = 1
            else:
                del oshape[ax]
            oshape = tuple(oshape)
            nl = int(_np.prod(d2.shape[:-1], dtype=int)) if d2.ndim > 1 \
                else 1
            d2 = d2.reshape(nl, d2.shape[-1])
            m2 = m2.reshape(d2.shape)
        od = _np.empty(d2.shape[0], dtype=object)
        om = _np.zeros(d2.shape[0], dtype=bool)
        for i in range(d2.shape[0]):
            vals = [x for x, mm in zip(d2[i], m2[i]) if not mm]
            n = len(vals)
            if n == 0:
                od[i] = 0
                om[i] = True
                continue
            if kind == 'sum':
                r = vals[0]
                for b in vals[1:]:
                    r = r + b
            elif kind == 'prod':
                r = vals[0]
                for b in vals[1:]:
                    r = r * b
            elif kind == 'mean':
                r = vals[0]
                for b in vals[1:]:
                    r = r + b
                r = r / n
            elif kind == 'min':
                r = _z3min(vals, True)
            elif kind == 'max':
                r = _z3min(vals, False)
            elif kind == 'ptp':
                r = _z3min(vals, False) - _z3min(vals, True)
            elif kind in ('var', 'std'):
                mu = vals[0]
                for b in vals[1:]:
                    mu = mu + b
                mu = mu / n
                r = (vals[0] - mu) * (vals[0] - mu)
                for b in vals[1:]:
                    r = r + (b - mu) * (b - mu)
                if n - ddof <= 0:
                    od[i] = 0
                    om[i] = True
                    continue
                r = r / (n - ddof)
                if kind == 'std':
                    r = sym_sqrt(r)
            elif kind == 'count':
                r = n
            else:
                raise NotImplementedError(kind)
            od[i] = r
        res = _np.ma.MaskedArray(od.reshape(oshape), mask=om.reshape(oshape))
        res = res.view(SymMaskedArray)
        if res.ndim == 0 and not keepdims:
            return _np.ma.masked if om.reshape(-1)[0] else od.reshape(-1)[0]
        return res

    def _sym_binop(self, other, fn):
        """numpy.ma domained operations (true_divide, floor_divide, power)
        on object arrays: mask = union of operand masks | non-finite result"""
        da = _np.ma.getdata(self).view(_np.ndarray)
        db = _np.ma.getdata(other)
        if isinstance(db, _np.ndarray):
            db = db.view(_np.ndarray)
        ma = _np.ma.getmaskarray(self)
        mb = _np.ma.getmaskarray(other) if isinstance(
            other, _np.ndarray) else False
        res = _np.asarray(fn(da, db), dtype=object)
        m = _np.broadcast_to(ma | mb, res.shape).copy()
        fl = m.reshape(-1)
        for i, x in enumerate(res.reshape(-1)):
            if not fl[i] and not _isfinite1(x):
                fl[i] = True
        out = _np.ma.MaskedArray(res, mask=m).view(type(self))
        try:
            out._update_from(self)
        except Exception:
            pass
        out._mask = m
        return out

    def _objop(self, other):
        return self.dtype == object or (isinstance(other, _np.ndarray) and
                                        other.dtype == object) or \
            isinstance(other, (Sym, SymNaN))

    def __truediv__(self, other):
        if self._objop(other):
            return self._sym_binop(other, lambda a, b: a / b)
        return _np.ma.MaskedArray.__truediv__(self, other)

    def __rtruediv__(self, other):
        if self._objop(other):
            return self._sym_binop(other, lambda a, b: b / a)
        return _np.ma.MaskedArray.__rtruediv__(self, other)

    def __floordiv__(self, other):
        if self._objop(other):
            return self._sym_binop(other, lambda a, b: a // b)
        return _np.ma.MaskedArray.__floordiv__(self, other)

    def __rfloordiv__(self, other):
        if self._objop(other):
            return self._sym_binop(other, lambda a, b: b // a)
        return _np.ma.MaskedArray.__rfloordiv__(self, other)

    def __pow__(self, other):
        if self._objop(other):
            return self._sym_binop(other, lambda a, b: a ** b)
        return _np.ma.MaskedArray.__pow__(self, other)

    def _dispatch(self, kind, axis, keepdims, sup, **kw):
        if self.dtype == object:
            kd = False if keepdims is _np._NoValue else keepdims
            return self._sym_reduce(kind, axis, kd, **kw)
        return sup()

    def sum(self, axis=None, dtype=None, out=None, keepdims=_np._NoValue):
        return self._dispatch('sum', axis, keepdims, lambda: _np.ma.MaskedArray
                              .sum(self, axis, dtype, out, keepdims))

    def prod(self, axis=None, dtype=None, out=None, keepdims=_np._NoValue):
        return self._dispatch('prod', axis, keepdims, lambda: _np.ma.
                              MaskedArray.prod(self, axis, dtype, out,
                                               keepdims))

    def mean(self, axis=None, dtype=None, out=None, keepdims=_np._NoValue):
        return self._dispatch('mean', axis, keepdims, lambda: _np.ma.
                              MaskedArray.mean(self, axis, dtype, out,
                                               keepdims))

    def min(self, axis=None, out=None, fill_value=None,
            keepdims=_np._NoValue):
        return self._dispatch('min', axis, keepdims, lambda: _np.ma.
                              MaskedArray.min(self, axis, out, fill_value,
                                              keepdims))

    def max(self, axis=None, out=None, fill_value=None,
            keepdims=_np._NoValue):
        return self._dispatch('max', axis, keepdims, lambda: _np.ma.
                              MaskedArray.max(self, axis, out, fill_value,
                                              keepdims))

    def var(self, axis=None, dtype=None, out=None, ddof=0,
            keepdims=_np._NoValue, mean=_np._NoValue):
        return self._dispatch('var', axis, keepdims, lambda: _np.ma.
                              MaskedArray.var(self, axis, dtype, out, ddof,
                                              keepdims), ddof=ddof)

    def std(self, axis=None, dtype=None, out=None, ddof=0,
            keepdims=_np._NoValue, mean=_np._NoValue):
        return self._dispatch('std', axis, keepdims, lambda: _np.ma.
                              MaskedArray.std(self, axis, dtype, out, ddof,
                                              keepdims), ddof=ddof)

    def ptp(self, axis=None, out=None, fill_value=None, keepdims=False):
        return self._dispatch('ptp', axis, keepdims, lambda: _np.ma.
                              MaskedArray.ptp(self, axis, out, fill_value,
                                              keepdims))


def masked_values(x, value, rtol=1e-5, atol=1e-8, copy=True, shrink=True):
    """numpy.ma.masked_values: for floating data numpy masks where
    isclose(x, value) -- |x - value| <= atol + rtol*|value| -- which is what
    the symbolic reals stand for here (object dtype would otherwise fall to
    the exact integer rule)"""
    if not _needs(x):
        return _np.ma.masked_values(x, value, rtol, atol, copy, shrink)
    arr = _objarr(x)
    data = _np.ma.getdata(arr)
    inval = _np.zeros(data.shape, dtype=bool)
    fl = inval.reshape(-1)
    import fractions
    rt = fractions.Fraction(rtol).limit_denominator(10 ** 12)
    at = fractions.Fraction(atol).limit_denominator(10 ** 12)
    for i, v in enumerate(data.reshape(-1)):
        if isinstance(v, SymNaN):
            fl[i] = False
            continue
        if isinstance(v, (symx.SymInt, int, _np.integer)):
            # integer data: numpy compares exactly (umath.equal)
            fl[i] = bool(v == value)
            continue
        d = abs(v - value)
        fl[i] = bool(d <= at + rt * abs(value))
    mask = inval | _np.ma.getmaskarray(arr)
    return _np.ma.MaskedArray(data.copy() if copy else data, mask=mask)


def isclose(a, b, rtol=1e-05, atol=1e-08, equal_nan=False):
    if not (_needs(a) or _needs(b)):
        return _np.isclose(a, b, rtol, atol, equal_nan)
    import fractions
    rt = fractions.Fraction(rtol).limit_denominator(10 ** 12)
    at = fractions.Fraction(atol).limit_denominator(10 ** 12)
    aa, bb = _np.broadcast_arrays(_objarr(a), _objarr(b))
    out = _np.zeros(aa.shape, dtype=bool)
    fl = out.reshape(-1)
    for i, (x, y) in enumerate(zip(aa.reshape(-1), bb.reshape(-1))):
        if isinstance(x, SymNaN) or isinstance(y, SymNaN):
            fl[i] = False
        else:
            fl[i] = bool(abs(x - y) <= at + rt * abs(y))
    return out if out.ndim else bool(out[()])


def allclose(a, b, rtol=1e-05, atol=1e-08, equal_nan=False):
    return bool(_np.all(isclose(a, b, rtol, atol, equal_nan)))


class interp1d(object):
    """scipy.interpolate.interp1d for kind='linear' along the last axis with
    fill_value='extrapolate' (the only form the library uses), over symbolic
    scalars; numeric inputs go to scipy itself"""

    def __init__(self, x, y, kind='linear', axis=-1, copy=True,
                 bounds_error=None, fill_value=float('nan'),
                 assume_sorted=False):
        self._real = None
        if not (_needs(x) or _needs(y)):
            from scipy.interpolate import interp1d as _i1
            self._real = _i1(x, y, kind=kind, axis=axis, copy=copy,
                             bounds_error=bounds_error,
                             fill_value=fill_value,
                             assume_sorted=assume_sorted)
            return
        if kind != 'linear' or axis not in (-1,) or \
                not (isinstance(fill_value, str) and
                     fill_value == 'extrapolate'):
            raise NotImplementedError('interp1d stub: linear/extrapolate')
        xs = list(_np.ma.getdata(_objarr(x)).reshape(-1))
        ya = _objarr(y)
        if len(xs) < 2:
            raise ValueError('x and y arrays must have at least 2 entries')
        if ya.shape[-1] != len(xs):
            raise ValueError('x and y arrays must be equal in length along '
                             'interpolation axis.')
        # scipy sorts x (and y) unless assume_sorted
        order = list(range(len(xs)))
        if not assume_sorted:
            for i in range(1, len(order)):      # insertion sort, forks
                j = i
                while j > 0 and xs[order[j]] < xs[order[j - 1]]:
                    order[j], order[j - 1] = order[j - 1], order[j]
                    j -= 1
        self.x = [xs[i] for i in order]
        self.y = ya[..., order]

    def __call__(self, xnew):
        if self._real is not None and not _needs(xnew):
            return self._real(xnew)
        if self._real is not None:
            raise NotImplementedError('numeric interp1d on symbolic x')
        xn = _objarr(xnew)
        pts = list(xn.reshape(-1))
        n = len(self.x)
        cols = []
        for v in pts:
            j = n - 2
            for k in range(n - 1):      # first interval whose top >= v
                if v <= self.x[k + 1]:
                    j = k
                    break
            t = (v - self.x[j]) / (self.x[j + 1] - self.x[j])
            cols.append(self.y[..., j] * (1 - t) + self.y[..., j + 1] * t)
        out = _np.empty(self.y.shape[:-1] + (len(pts),), dtype=object)
        for k, c in enumerate(cols):
            out[..., k] = c
        return out.reshape(self.y.shape[:-1] + xn.shape)


def make_scipy_interpolate_stub():
    m = types.ModuleType('scipy.interpolate')
    m.interp1d = interp1d
    return m


class SymLog(object):
    """float32 natural log of a symbolic float32 x, only usable as
    LOG(x) / LOG(float32(2)) (the base-2 exponent computation of pack2d).
    The quotient is a fresh float32 s tied to x by: the exact table value
    (computed with the real numpy float32 log at harness time) when x is a
    power of two or the float just below one; m < s < m+1 when x lies between
    2**m and 2**(m+1) away from both by more than 2**-16 relatively.  The
    remaining slivers next to the powers of two are assumed away (stated
    bound): float32 log rounding there is not modelled."""

    BAND = (-24, 24)

    def __init__(self, x):
        self.x = x

    def __truediv__(self, c):
        z3 = symx.z3
        ln2 = float(_np.log(_np.float32(2.)))
        if not (isinstance(c, (float, _np.floating)) and
                abs(float(c) - ln2) < 1e-6):
            raise NotImplementedError('log stub: only LOG(x)/LOG(2)')
        ctx = symx.cur()
        ctx.nfresh += 1
        s = z3.FP('log2!%d' % ctx.nfresh, symx.F32)
        x = self.x.e
        f32 = lambda v: z3.FPVal(float(v), symx.F32)  # noqa
        cases = []
        lo, hi = self.BAND
        for m in range(lo, hi + 1):
            p = _np.float32(2.0) ** _np.float32(m)
            pn = _np.float32(2.0) ** _np.float32(m + 1)
            tv = _np.float32(_np.log(p) / _np.log(_np.float32(2.)))
            cases.append(z3.Implies(z3.fpEQ(x, f32(p)),
                                    z3.fpEQ(s, f32(tv))))
            below = _np.nextafter(pn, _np.float32(0))
            tb = _np.float32(_np.log(below) / _np.log(_np.float32(2.)))
            cases.append(z3.Implies(z3.fpEQ(x, f32(below)),
                                    z3.fpEQ(s, f32(tb))))
            a = _np.float32(float(p) * (1 + 2.0 ** -16))
            b = _np.float32(float(pn) * (1 - 2.0 ** -16))
            cases.append(z3.Implies(
                z3.And(z3.fpGEQ(x, f32(a)), z3.fpLEQ(x, f32(b))),
                z3.And(z3.fpGT(s, f32(m)), z3.fpLT(s, f32(m + 1)))))
            # slivers: outside the model
            cases.append(z3.Not(z3.And(z3.fpGT(x, f32(p)),
                                       z3.fpLT(x, f32(a)))))
            cases.append(z3.Not(z3.And(z3.fpGT(x, f32(b)),
                                       z3.fpLT(x, f32(below)))))
        cases.append(z3.fpGEQ(x, f32(_np.float32(2.0) ** lo)))
        cases.append(z3.fpLT(x, f32(_np.float32(2.0) ** (hi + 1))))
        ctx.assume(z3.And(*cases))
        return symx.SymFP(s)


def make_numpy_shim():
    over = {
        'isscalar': lambda x: True if isinstance(x, (Sym, SymNaN))
        else _np.isscalar(x),
        'interp': interp,
        'isnan': lambda a, **k: _boolmap(_isnan1, a) if _needs(a)
        else _np.isnan(a, **k),
        'isfinite': lambda a, **k: _boolmap(_isfinite1, a) if _needs(a)
        else _np.isfinite(a, **k),
        'isinf': lambda a, **k: _boolmap(lambda x: False, a) if _needs(a)
        else _np.isinf(a, **k),
        'floor': lambda a, **k: _map(_floor1, a) if _needs(a)
        else _np.floor(a, **k),
        'ceil': lambda a, **k: _map(_ceil1, a) if _needs(a)
        else _np.ceil(a, **k),
        'trunc': lambda a, **k: _map(_trunc1, a) if _needs(a)
        else _np.trunc(a, **k),
        'rint': lambda a, **k: _map(_round1, a) if _needs(a)
        else _np.rint(a, **k),
    }

    def _round(a, decimals=0, out=None):
        if _needs(a):
            if decimals != 0:
                raise NotImplementedError('np.round(sym, decimals != 0)')
            return _map(_round1, a)
        return _np.round(a, decimals, out)
    over['round'] = _round
    over['around'] = _round
    if hasattr(_np, 'round_'):
        over['round_'] = _round

    def _wrap_sym(realf):
        def f(*a, **k):
            dt = k.get('dtype', a[1] if len(a) > 1 and realf in (
                _np.array, _np.asarray) else None)
            if dt is not None and a and _has_sym(a[0]):
                try:
                    isnum = _np.dtype(dt).kind in 'fiu'
                except TypeError:
                    isnum = False
                if isnum and realf is _np.asarray and \
                        isinstance(a[0], _np.ndarray) and \
                        _nominal_dtype(a[0]) is not None and \
                        _nominal_dtype(a[0]) == _np.dtype(dt):
                    # same machine type: asarray hands back its argument
                    return a[0]
                if isnum:
                    # numeric cast of symbolic values: stay symbolic
                    k2 = dict(k)
                    k2.pop('dtype', None)
                    r = realf(a[0], dtype=object, **k2)
                    if isinstance(r, _np.ndarray) and r.ndim:
                        r = r.view(SymNDArray).astype(dt)
                    return r
            r = realf(*a, **k)
            if type(r) is _np.ndarray and r.dtype == object and r.ndim and \
                    _has_sym(r):
                return r.view(SymNDArray)
            return r
        return f
    for _n in ('array', 'asarray', 'append', 'concatenate', 'atleast_1d',
               'diff'):
        over[_n] = _wrap_sym(getattr(_np, _n))
    over['ndarray'] = SymNDArray
    over['isclose'] = isclose
    over['median'] = np_median
    over['allclose'] = allclose
    over['sqrt'] = lambda a, **k: _map(sym_sqrt, a) if _needs(a) \
        else _np.sqrt(a, **k)
    ma_over = {
        'MaskedArray': SymMaskedArray,
        'masked_array': SymMaskedArray,
        'masked_invalid': masked_invalid,
        'masked_values': masked_values,
        'median': ma_median,
        'floor': over['floor'], 'ceil': over['ceil'], 'round': _round,
        'around': _round,
    }

    def _mk_alloc(name):
        realf = getattr(_np, name)

        def alloc(shape, dtype=float, *a, **k):
            if np.__dict__.get('_objfloat') and dtype is not None and (
                    _np.dtype(dtype).kind == 'f' or (
                        np.__dict__.get('_objfloat') == 'all' and
                        _np.dtype(dtype).kind in 'iu')):
                # "real" float mode: arrays the library allocates for
                # results must be able to hold symbolic reals
                r = realf(shape, float, *a, **k).astype(object)
                return r.view(SymNDArray)
            return realf(shape, dtype, *a, **k)
        return alloc
    for _n in ('zeros', 'ones', 'empty'):
        over[_n] = _mk_alloc(_n)

    def _zeros_like(a, dtype=None, **k):
        if isinstance(a, _np.ndarray) and a.dtype == object and \
                dtype is None:
            r = _np.zeros(a.shape, float).astype(object)
            return r.view(SymNDArray)
        return _np.zeros_like(a, dtype=dtype, **k)
    over['zeros_like'] = _zeros_like

    class _Caster(object):
        """np.int32 / np.float32 used as functions on symbolic values"""

        def __init__(self, real, kind, bits):
            self._real, self._kind, self._bits = real, kind, bits

        def __call__(self, x=0, *a, **k):
            if isinstance(x, _np.ndarray) and x.dtype == object:
                return _map(self, x)
            if isinstance(x, symx.SymFP):
                if self._kind == 'i':
                    return symx.fp_trunc_to_bv(x)
                return x.to(symx.F32 if self._bits == 32 else symx.F64)
            if isinstance(x, symx.SymBVInt):
                if self._kind == 'i':
                    return x
                return x.to_fp(symx.F32 if self._bits == 32 else symx.F64)
            if isinstance(x, (SymReal, SymInt)):
                return x if self._kind == 'f' or isinstance(x, SymInt) \
                    else x.trunc()
            return self._real(x, *a, **k)

        def __getattr__(self, k):
            return getattr(self._real, k)

        def __instancecheck__(self, o):
            return isinstance(o, self._real)
    over['int32'] = _Caster(_np.int32, 'i', 32)
    over['float32'] = _Caster(_np.float32, 'f', 32)
    over['float64'] = _Caster(_np.float64, 'f', 64)

    def _log(x, *a, **k):
        if isinstance(x, symx.SymFP):
            return SymLog(x)
        if _needs(x):
            raise NotImplementedError('np.log on symbolic array')
        return _np.log(x, *a, **k)
    over['log'] = _log

    class _Shim(types.ModuleType):
        def __init__(self, name, real, table):
            types.ModuleType.__init__(self, name)
            self.__dict__['_real'] = real
            self.__dict__.update(table)

        def __getattr__(self, k):
            return getattr(self.__dict__['_real'], k)

        def __dir__(self):
            return dir(self.__dict__['_real'])

    np = _Shim('numpy', _np, over)
    np.__dict__['ma'] = _Shim('numpy.ma', _np.ma, ma_over)
    return np
