"""numpy shim for twin modules.

The shim *is* the real numpy (same classes, same indexing/view/broadcast
machinery -- so aliasing and advanced-indexing semantics are numpy's own, not a
re-implementation) except for the handful of functions whose C loops cannot
operate on object arrays holding symbolic scalars.  Those are re-implemented
here element-wise over the symbolic scalar operations, and fall through to the
real function whenever no symbolic element is involved.  API surface fidelity:
a name exists here iff the installed numpy has it (``np.in1d``,
``ndarray.tostring`` ... are absent in numpy 2.5 and therefore absent here).
"""
import math
import types

import numpy as _np

from . import symx
from .symx import Sym, SymReal, SymInt, SymBool, SymNaN, NAN


def _has_sym(a):
    if isinstance(a, (Sym, SymNaN)):
        return True
    if isinstance(a, _np.ndarray):
        if a.dtype != object:
            return False
        d = a.data if False else a
        for x in _np.ma.getdata(d).flat:
            if isinstance(x, (Sym, SymNaN)):
                return True
        return False
    if isinstance(a, (list, tuple)):
        return any(_has_sym(x) for x in a)
    return False


def _needs(a):
    """does this argument need the element-wise path? (symbolic element or an
    object-dtype array, for which numpy has no numeric loops)"""
    if isinstance(a, _np.ndarray) and a.dtype == object:
        return True
    return _has_sym(a)


def _objarr(x):
    if isinstance(x, _np.ndarray):
        return x
    a = _np.empty((), dtype=object)
    if isinstance(x, (list, tuple)):
        return _np.array(x, dtype=object) if _has_sym(x) else _np.asarray(x)
    a[()] = x
    return a


def _map(fn, a):
    """apply fn to every element; keeps masks and shape; returns object array
    (or scalar for 0-d non-array input)"""
    scalar = not isinstance(a, _np.ndarray)
    arr = _objarr(a)
    data = _np.ma.getdata(arr)
    out = _np.empty(data.shape, dtype=object)
    of = out.reshape(-1)
    for i, x in enumerate(data.reshape(-1)):
        of[i] = fn(x)
    if isinstance(arr, _np.ma.MaskedArray):
        out = _np.ma.MaskedArray(out, mask=_np.ma.getmaskarray(arr).copy())
    if scalar and out.ndim == 0:
        return out[()]
    return out


def _isnan1(x):
    if isinstance(x, SymNaN):
        return True
    if isinstance(x, symx.SymFP):
        return bool(SymBool(symx.z3.fpIsNaN(x.e)))
    if isinstance(x, Sym):
        return False
    return bool(_np.isnan(x))


def _isfinite1(x):
    if isinstance(x, SymNaN):
        return False
    if isinstance(x, symx.SymFP):
        return bool(SymBool(symx.z3.Not(symx.z3.Or(symx.z3.fpIsNaN(x.e),
                                                   symx.z3.fpIsInf(x.e)))))
    if isinstance(x, Sym):
        return True
    return bool(_np.isfinite(x))


def _round1(x):
    if isinstance(x, (SymReal, SymInt, SymNaN)):
        return x.rint()
    return _np.round(x)


def _floor1(x):
    if isinstance(x, SymReal):
        return SymReal(symx.z3.ToReal(x.floor().e))
    if isinstance(x, (SymInt, SymNaN)):
        return x
    return _np.floor(x)


def _ceil1(x):
    if isinstance(x, SymReal):
        return SymReal(symx.z3.ToReal(x.ceil().e))
    if isinstance(x, (SymInt, SymNaN)):
        return x
    return _np.ceil(x)


def _trunc1(x):
    if isinstance(x, SymReal):
        return SymReal(symx.z3.ToReal(x.trunc().e))
    if isinstance(x, (SymInt, SymNaN)):
        return x
    return _np.trunc(x)


def _boolmap(fn, a):
    r = _map(fn, a)
    if isinstance(r, _np.ndarray):
        if isinstance(r, _np.ma.MaskedArray):
            return _np.ma.MaskedArray(_np.ma.getdata(r).astype(bool),
                                      mask=_np.ma.getmaskarray(r))
        return r.astype(bool)
    return bool(r)


def interp(x, xp, fp, left=None, right=None, period=None):
    """np.interp on symbolic data.  numpy documents that xp must be
    increasing and that no check is made; if the library passes a sequence
    that is not provably increasing the path stops with a Candidate (domain
    monitor) -- replay on the real numpy decides what the user sees."""
    if period is not None or not (_has_sym(x) or _has_sym(xp) or _has_sym(fp)):
        return _np.interp(x, xp, fp, left=left, right=right, period=period)
    xs = _objarr(x)
    xpl = list(_np.ma.getdata(_objarr(xp)).reshape(-1))
    fpl = list(_np.ma.getdata(_objarr(fp)).reshape(-1))
    if len(xpl) != len(fpl):
        raise ValueError('fp and xp are not of the same length.')
    if len(xpl) == 0:
        raise ValueError('array of sample points is empty')
    for a, b in zip(xpl[:-1], xpl[1:]):
        if not (a < b):
            raise symx.Candidate('np.interp called with non-increasing xp')

    def one(v):
        if isinstance(v, SymNaN):
            return NAN
        n = len(xpl)
        if v < xpl[0]:
            return fpl[0] if left is None else _lift_side(left)
        if v > xpl[-1]:
            return fpl[-1] if right is None else _lift_side(right)
        if n == 1:
            return fpl[0]
        for j in range(n - 1):
            if v < xpl[j + 1]:
                if v == xpl[j]:
                    return fpl[j]
                slope = (fpl[j + 1] - fpl[j]) / (xpl[j + 1] - xpl[j])
                return slope * (v - xpl[j]) + fpl[j]
        return fpl[-1]
    return _map(one, xs) if xs.ndim else one(xs[()])


def _lift_side(v):
    if isinstance(v, float) and math.isnan(v):
        return NAN
    if isinstance(v, _np.floating) and _np.isnan(v):
        return NAN
    return v


def masked_invalid(a, copy=True):
    arr = _objarr(a) if not isinstance(a, _np.ndarray) else a
    if arr.dtype != object:
        return _np.ma.masked_invalid(a, copy=copy)
    data = _np.ma.getdata(arr)
    inval = _np.zeros(data.shape, dtype=bool)
    fl = inval.reshape(-1)
    for i, x in enumerate(data.reshape(-1)):
        fl[i] = not _isfinite1(x)
    mask = inval | _np.ma.getmaskarray(arr)
    res = _np.ma.MaskedArray(data.copy() if copy else data, mask=mask)
    return res


def make_numpy_shim():
    over = {
        'isscalar': lambda x: True if isinstance(x, (Sym, SymNaN))
        else _np.isscalar(x),
        'interp': interp,
        'isnan': lambda a, **k: _boolmap(_isnan1, a) if _needs(a)
        else _np.isnan(a, **k),
        'isfinite': lambda a, **k: _boolmap(_isfinite1, a) if _needs(a)
        else _np.isfinite(a, **k),
        'isinf': lambda a, **k: _boolmap(lambda x: False, a) if _needs(a)
        else _np.isinf(a, **k),
        'floor': lambda a, **k: _map(_floor1, a) if _needs(a)
        else _np.floor(a, **k),
        'ceil': lambda a, **k: _map(_ceil1, a) if _needs(a)
        else _np.ceil(a, **k),
        'trunc': lambda a, **k: _map(_trunc1, a) if _needs(a)
        else _np.trunc(a, **k),
        'rint': lambda a, **k: _map(_round1, a) if _needs(a)
        else _np.rint(a, **k),
    }

    def _round(a, decimals=0, out=None):
        if _needs(a):
            if decimals != 0:
                raise NotImplementedError('np.round(sym, decimals != 0)')
            return _map(_round1, a)
        return _np.round(a, decimals, out)
    over['round'] = _round
    over['around'] = _round
    if hasattr(_np, 'round_'):
        over['round_'] = _round

    ma_over = {
        'masked_invalid': masked_invalid,
        'floor': over['floor'], 'ceil': over['ceil'], 'round': _round,
        'around': _round,
    }

    class _Shim(types.ModuleType):
        def __init__(self, name, real, table):
            types.ModuleType.__init__(self, name)
            self.__dict__['_real'] = real
            self.__dict__.update(table)

        def __getattr__(self, k):
            return getattr(self.__dict__['_real'], k)

        def __dir__(self):
            return dir(self.__dict__['_real'])

    np = _Shim('numpy', _np, over)
    np.__dict__['ma'] = _Shim('numpy.ma', _np.ma, ma_over)
    return np
