"""Twin loader: executes the repository's *current* source text in fresh module
namespaces whose builtins and imports are redirected to symbolic-aware shims.

Nothing of the library is transcribed: ``twin('PseudoNetCDF.core._files')`` reads
``$VERIF_REPO_ROOT/src/PseudoNetCDF/core/_files.py`` (default /repo), compiles it
and runs it with

* ``__builtins__`` = builtins with ``int float`` replaced by symbolic-aware
  classes (so ``int(x)`` of a symbolic value stays symbolic);
* ``__import__`` mapping ``numpy`` (and ``numpy.ma``) to :mod:`verifx.shim`,
  selected other names to stubs given by the harness, ``PseudoNetCDF.*`` modules
  to their own twins (package ``__init__`` files are not executed: re-exports
  are resolved from their AST), and everything else to the real module.
"""
import ast
import builtins
import hashlib
import os
import sys
import types

from . import symx

REPO = os.environ.get('VERIF_REPO_ROOT', '/repo')
SRC = os.path.join(REPO, 'src')


class HarnessError(Exception):
    """the machinery (not the library) is at fault: exit code 3"""


# --------------------------------------------------------------------------
# patched builtins

_real_int = int
_real_float = float
_real_isinstance = isinstance


class _IntMeta(type):
    def __instancecheck__(cls, obj):
        return _real_isinstance(obj, (_real_int, symx.SymInt))

    def __subclasscheck__(cls, sub):
        return issubclass(sub, (_real_int, symx.SymInt))

    def __eq__(cls, other):
        return other is cls or other is _real_int

    def __hash__(cls):
        return hash(_real_int)


class sym_int(object, metaclass=_IntMeta):
    def __new__(cls, x=0, *a):
        if _real_isinstance(x, symx.SymInt):
            return x
        if _real_isinstance(x, symx.SymReal):
            return x.trunc()
        if _real_isinstance(x, symx.SymBool):
            return symx.SymInt(symx._num(x)[1])
        if hasattr(x, '__symint__'):
            return x.__symint__()
        return _real_int(x, *a)


class _FloatMeta(type):
    def __instancecheck__(cls, obj):
        return _real_isinstance(obj, (_real_float, symx.SymReal, symx.SymFP))

    def __subclasscheck__(cls, sub):
        return issubclass(sub, (_real_float, symx.SymReal))

    def __eq__(cls, other):
        return other is cls or other is _real_float

    def __hash__(cls):
        return hash(_real_float)


class sym_float(object, metaclass=_FloatMeta):
    def __new__(cls, x=0.0):
        if _real_isinstance(x, (symx.SymReal, symx.SymFP)):
            return x
        if _real_isinstance(x, symx.SymInt):
            return symx.SymReal(symx.z3.ToReal(x.e))
        if _real_isinstance(x, symx.SymNaN):
            return x
        if hasattr(x, '__symfloat__'):
            return x.__symfloat__()
        return _real_float(x)


class SymText(object):
    """text whose content depends on symbolic numbers: the result of
    'fmt' % sym or 'abc' * symint in twin code.  Supports what the anchored
    code does with such text: concatenation, the fixed-width digit slices of
    a single %0Nd field, int() of those, and being handed to stubs
    (strptime)."""

    def __init__(self, kind, fmt=None, args=None, parts=None):
        self.kind, self.fmt, self.args, self.parts = kind, fmt, args, parts

    def __add__(self, o):
        return SymText('cat', parts=[self, o])

    def __radd__(self, o):
        return SymText('cat', parts=[o, self])

    def __mod__(self, o):
        return SymText('fmt', fmt=self, args=o)

    def _single_int_field(self):
        import re
        if self.kind != 'fmt' or not isinstance(self.fmt, str):
            return None
        m = re.fullmatch(r'%0?(\d*)d', self.fmt)
        if not m:
            return None
        a = self.args[0] if isinstance(self.args, tuple) else self.args
        return int(m.group(1) or 0), a

    def __getitem__(self, sl):
        f = self._single_int_field()
        if f is None or not isinstance(sl, slice) or sl.step is not None:
            raise NotImplementedError('slice of symbolic text %r' % (sl,))
        width, n = f
        # non-negative n: text is the decimal digits, zero padded to width
        # (longer if n needs more digits): negative offsets count digits
        # from the right
        a, b = sl.start, sl.stop
        if (a is None or a < 0) and (b is None or b < 0):
            hi = None if a is None else -a      # digits from the right
            lo = 0 if b is None else -b
            return SymDigits(n, lo, hi, width)
        raise NotImplementedError('slice of symbolic text %r' % (sl,))

    def __repr__(self):
        return 'SymText(%s)' % self.kind

    def strip(self, *a):
        return self

    def ljust(self, *a):
        return self

    def encode(self, *a):
        return self


class SymDigits(object):
    """decimal digits [lo, hi) counted from the right of a non-negative
    symbolic integer rendered with %0Nd"""

    def __init__(self, n, lo, hi, width):
        self.n, self.lo, self.hi, self.width = n, lo, hi, width

    def __symint__(self):
        n = self.n
        v = n // (10 ** self.lo)
        if self.hi is not None:
            v = v % (10 ** (self.hi - self.lo))
        return v


def sym_mul(a, b):
    if _real_isinstance(a, str) and _real_isinstance(b, symx.SymInt):
        return SymText('rep', fmt=a, args=b)
    if _real_isinstance(b, str) and _real_isinstance(a, symx.SymInt):
        return SymText('rep', fmt=b, args=a)
    return a * b


def _has_symarg(x):
    if _real_isinstance(x, (symx.Sym, SymText)):
        return True
    if _real_isinstance(x, tuple):
        return any(_has_symarg(y) for y in x)
    return False


_NUMFMT = __import__('re').compile(r'%[-+0 #]*\d*(\.\d+)?[diouxXeEfFgG]')


def sym_mod(a, b):
    if _real_isinstance(a, str) and _has_symarg(b) and _NUMFMT.search(a):
        return SymText('fmt', fmt=a, args=b)
    return a % b


class _Rewrite(ast.NodeTransformer):
    """a * b -> __symmul__(a, b); a % b -> __symmod__(a, b): lets text built
    from symbolic numbers ('%07d' % n, 'f' * count) stay symbolic instead of
    forcing a concrete value through str.__mod__/__mul__"""

    def visit_BinOp(self, node):
        self.generic_visit(node)
        if isinstance(node.op, ast.Mult):
            fn = '__symmul__'
        elif isinstance(node.op, ast.Mod):
            fn = '__symmod__'
        else:
            return node
        return ast.copy_location(ast.Call(
            func=ast.Name(id=fn, ctx=ast.Load()),
            args=[node.left, node.right], keywords=[]), node)


_real_eval = eval


def sym_eval(src, g=None, l=None):
    """builtin eval for twin code: same scoping as the builtin (caller's
    frame), plus the symbolic tokens produced by str(Sym)"""
    fr = sys._getframe(1)
    if g is None:
        g = fr.f_globals
        if l is None:
            l = fr.f_locals
    if isinstance(src, str) and '_SYMTOK' in src:
        env = dict(l if l is not None else {})
        env.update(symx.STR_TABLE)
        return _real_eval(src, g, env)
    if l is None:
        return _real_eval(src, g)
    return _real_eval(src, g, l)


def sym_round(x, n=None):
    if _real_isinstance(x, symx.Sym):
        return x.__round__(n)
    return builtins.round(x, n) if n is not None else builtins.round(x)


# --------------------------------------------------------------------------

class TwinSpace(object):
    """one namespace of twin modules (per harness/obligation)"""

    def __init__(self, stubs=None, patch_int=True, no_twin=(),
                 objfloat=False):
        from . import shim
        self.modules = {}
        self.stubs = dict(stubs or {})
        self.np = shim.make_numpy_shim()
        self.np.__dict__['_objfloat'] = objfloat
        self.stubs.setdefault('numpy', self.np)
        self.stubs.setdefault('numpy.ma', self.np.ma)
        self.stubs.setdefault('scipy.interpolate',
                              shim.make_scipy_interpolate_stub())
        self.patch_int = patch_int
        self.no_twin = set(no_twin)
        self.entered = {}
        b = dict(vars(builtins))
        if patch_int:
            b['int'] = sym_int
            b['float'] = sym_float
            b['round'] = sym_round
            b['eval'] = sym_eval
        b['__symmul__'] = sym_mul
        b['__symmod__'] = sym_mod
        b['__import__'] = self._import
        self.builtins = b

    # -- path helpers
    @staticmethod
    def _path(modname):
        rel = modname.replace('.', os.sep)
        p = os.path.join(SRC, rel + '.py')
        if os.path.exists(p):
            return p, False
        p = os.path.join(SRC, rel, '__init__.py')
        if os.path.exists(p):
            return p, True
        return None, False

    def _is_repo(self, modname):
        return modname == 'PseudoNetCDF' or modname.startswith('PseudoNetCDF.')

    # -- import hook
    def _import(self, name, globals=None, locals=None, fromlist=(), level=0):
        if level > 0:
            pkg = globals.get('__package__') or ''
            parts = pkg.split('.')
            if level > 1:
                parts = parts[:-(level - 1)]
            base = '.'.join(parts)
            full = base + ('.' + name if name else '')
        else:
            full = name
        if full in self.stubs:
            return self._ret(full, fromlist, self.stubs)
        top = full.split('.')[0]
        if top in self.stubs and not fromlist:
            return self.stubs[top]
        if self._is_repo(full) and full not in self.no_twin:
            mod = self.twin(full)
            if fromlist:
                for f in fromlist:
                    if f != '*' and not hasattr(mod, f):
                        sub = full + '.' + f
                        if self._path(sub)[0]:
                            setattr(mod, f, self.twin(sub))
                return mod
            if level > 0:
                return mod
            return self.twin(top)
        return builtins.__import__(name, globals, locals, fromlist, level)

    def _ret(self, full, fromlist, table):
        if fromlist:
            return table[full]
        top = full.split('.')[0]
        return table.get(top, table[full])

    # -- twin construction
    # import-order constraints the real package satisfies through its
    # __init__ (sci_var must start before pncgen: they import each other)
    PRELOAD = {'PseudoNetCDF.pncgen': 'PseudoNetCDF.sci_var'}

    def twin(self, modname):
        if modname in self.modules:
            return self.modules[modname]
        pre = self.PRELOAD.get(modname)
        if pre and pre not in self.modules:
            self.twin(pre)
            if modname in self.modules:
                return self.modules[modname]
        path, ispkg = self._path(modname)
        if path is None:
            raise ImportError('no repo module ' + modname)
        mod = types.ModuleType(modname)
        mod.__file__ = path
        mod.__package__ = modname if ispkg else modname.rpartition('.')[0]
        mod.__dict__['__builtins__'] = self.builtins
        mod.__twin__ = True
        self.modules[modname] = mod
        if ispkg:
            mod.__path__ = [os.path.dirname(path)]
            self._lazy_package(mod, path)
            return mod
        with open(path) as f:
            src = f.read()
        import warnings
        with warnings.catch_warnings():
            warnings.simplefilter('ignore')
            tree = ast.parse(src, path)
            tree = ast.fix_missing_locations(_Rewrite().visit(tree))
            code = compile(tree, path, 'exec')
        try:
            exec(code, mod.__dict__)
        except BaseException:
            del self.modules[modname]
            raise
        return mod

    def _lazy_package(self, mod, path):
        """do not execute a package __init__; resolve `from .x import y`
        re-exports lazily from its AST"""
        with open(path) as f:
            src = f.read()
        import warnings
        with warnings.catch_warnings():
            warnings.simplefilter('ignore')
            tree = ast.parse(src)
        table = {}
        for node in ast.walk(tree):
            if isinstance(node, ast.ImportFrom) and node.level >= 1:
                base = mod.__name__.split('.')
                if node.level > 1:
                    base = base[:-(node.level - 1)]
                target = '.'.join(base + ([node.module] if node.module else []))
                for a in node.names:
                    if node.module is None:
                        # from . import sub  -> the submodule itself
                        table[a.asname or a.name] = (target + '.' + a.name,
                                                     None)
                    else:
                        table[a.asname or a.name] = (target, a.name)
        space = self

        class _Pkg(types.ModuleType):
            def __getattr__(self_, k):
                if k in table:
                    target, name = table[k]
                    if name == '*':
                        raise AttributeError(k)
                    if name is None:
                        v = space.twin(target)
                        self_.__dict__[k] = v
                        return v
                    tm = space.twin(target)
                    if hasattr(tm, name):
                        v = getattr(tm, name)
                    else:
                        v = space.twin(target + '.' + name)
                    self_.__dict__[k] = v
                    return v
                sub = self_.__name__ + '.' + k
                if space._path(sub)[0]:
                    v = space.twin(sub)
                    self_.__dict__[k] = v
                    return v
                raise AttributeError(k)
        mod.__class__ = _Pkg

    # -- evidence: which real functions ran
    def profile(self):
        space = self

        def prof(frame, event, arg):
            if event != 'call':
                return
            co = frame.f_code
            fn = co.co_filename
            if not fn.startswith(SRC):
                return
            key = (fn, co.co_qualname if hasattr(co, 'co_qualname')
                   else co.co_name, co.co_firstlineno)
            if key not in space.entered:
                space.entered[key] = 0
            space.entered[key] += 1
        return prof

    def functions_encoded(self):
        out = []
        cache = {}
        for (fn, qn, line), n in sorted(self.entered.items()):
            if qn == '<module>':
                continue
            if fn not in cache:
                with open(fn) as f:
                    cache[fn] = f.read().splitlines(True)
            out.append({'file': os.path.relpath(fn, REPO), 'qualname': qn,
                        'line': line, 'calls': n,
                        'sha256': _segment_hash(cache[fn], line)})
        return out


def _segment_hash(lines, first):
    """hash of the def's source segment (until dedent)"""
    i = first - 1
    if i >= len(lines):
        return None
    ind = len(lines[i]) - len(lines[i].lstrip())
    seg = [lines[i]]
    j = i + 1
    # skip decorator/def header continuation
    while j < len(lines):
        s = lines[j]
        if s.strip() and (len(s) - len(s.lstrip())) <= ind and \
                not s.lstrip().startswith(')'):
            if j > i + 1 or s.lstrip().startswith(('def ', 'class ', '@')):
                break
        seg.append(s)
        j += 1
    return hashlib.sha256(''.join(seg).encode()).hexdigest()[:16]


# --------------------------------------------------------------------------
# AST slicer

def get_function_ast(modname, qualname):
    path, _ = TwinSpace._path(modname)
    with open(path) as f:
        src = f.read()
    import warnings
    with warnings.catch_warnings():
        warnings.simplefilter('ignore')
        tree = ast.parse(src)
    parts = qualname.split('.')
    node = tree
    for p in parts:
        found = None
        for ch in ast.iter_child_nodes(node):
            if isinstance(ch, (ast.FunctionDef, ast.ClassDef)) and ch.name == p:
                found = ch
        if found is None:
            # private name mangling
            raise HarnessError('AST: %s not found in %s' % (qualname, modname))
        node = found
    return node, path


def _targets(st):
    """names a statement assigns: plain names, and  base[]  for an item
    assignment  base[key] = ... / base[key] += ...  on a plain name"""
    out = []

    def sub(t):
        if isinstance(t, ast.Subscript) and isinstance(t.value, ast.Name):
            return t.value.id + '[]'
        return None
    if isinstance(st, ast.Assign):
        for t in st.targets:
            if sub(t):
                out.append(sub(t))
                continue
            for n in ast.walk(t):
                if isinstance(n, ast.Name) and isinstance(n.ctx, ast.Store):
                    out.append(n.id)
    elif isinstance(st, ast.AugAssign) and isinstance(st.target, ast.Name):
        out.append(st.target.id)
    elif isinstance(st, ast.AugAssign) and sub(st.target):
        out.append(sub(st.target))
    return out


def slice_kernel(modname, qualname, names, guards=True, space=None,
                 provided=None, outputs=None):
    """AST slicer: from the function `qualname` of repo module `modname`
    extract, in source order (top level of the function body), the
    assignments whose targets are all in `names` and (guards=True) the
    `if` statements that only raise.  Returns (run, info) where run(env)
    executes the slice in a namespace with the symbolic-aware builtins and
    returns the final namespace.  A pattern that matches nothing is a harness
    error (the encoding must be regenerated from source, never guessed).
    provided: names the caller puts into env.  When given, helper names that
    the picked statements read and that are neither wanted, provided, module
    globals nor builtins are resolved by also picking their (top-level,
    single-name) assignments -- a dependency closure in source order.
    outputs: {name: matcher}; matcher(call_node) returns the argument
    expression of a call that is the observable result (e.g. the length
    handed to createDimension('TSTEP', ...)); the slice then assigns that
    expression to `name` at the place of the call, which makes the slice
    independent of how the function names its locals."""
    node, path = get_function_ast(modname, qualname)
    picked = []
    found = set()
    synth = []
    for oname, matcher in (outputs or {}).items():
        hit = None
        for st in node.body:
            for c in ast.walk(st):
                if isinstance(c, ast.Call):
                    e = matcher(c)
                    if e is not None:
                        hit = (st, e)
        if hit is None:
            raise HarnessError('AST slice of %s.%s: no call matches output '
                               '%s' % (modname, qualname, oname))
        a = ast.Assign(targets=[ast.Name(id=oname, ctx=ast.Store())],
                       value=hit[1])
        ast.copy_location(a, hit[0])
        a.lineno = hit[0].lineno
        a._synthetic = True
        synth.append(a)
        found.add(oname)
    def assigned_in(block):
        out = []
        for b in block:
            if isinstance(b, ast.If):
                out += assigned_in(b.body) + assigned_in(b.orelse)
            elif isinstance(b, ast.With):
                for it in b.items:
                    if isinstance(it.optional_vars, ast.Name):
                        out.append(it.optional_vars.id)
                out += assigned_in(b.body)
            else:
                t = _targets(b)
                if not t and not isinstance(b, (ast.Pass, ast.Expr)):
                    out.append(None)
                out += t
        return out

    for st in node.body:
        tg = _targets(st)
        if tg and all(t in names for t in tg):
            picked.append(st)
            found.update(tg)
        elif isinstance(st, ast.If) and (st.orelse or not all(
                isinstance(b, ast.Raise) for b in st.body)):
            inner = assigned_in(st.body) + assigned_in(st.orelse)
            # helper names introduced inside the block are fine as long as
            # the block only assigns and touches at least one wanted name
            if inner and None not in inner and \
                    any(t in names for t in inner):
                picked.append(st)
                found.update(inner)
        elif guards and isinstance(st, ast.If) and not st.orelse and \
                all(isinstance(b, ast.Raise) for b in st.body):
            used = set(n.id for n in ast.walk(st.test)
                       if isinstance(n, ast.Name))
            if used & set(names):
                picked.append(st)
    missing = set(names) - found
    if missing:
        raise HarnessError('AST slice of %s.%s: no assignment to %s' % (
            modname, qualname, sorted(missing)))
    picked += synth
    if provided is not None:
        import builtins as _bi
        known = set(names) | set(provided) | set(dir(_bi)) | \
            (found - set(outputs or {}))
        known |= set((space or TwinSpace()).twin(modname).__dict__)
        changed = True
        while changed:
            changed = False
            reads = set()
            for st in picked:
                reads |= set(n.id for n in ast.walk(st)
                             if isinstance(n, ast.Name) and
                             isinstance(n.ctx, ast.Load))
            for nm in sorted(reads - known):
                for st in node.body:
                    if st in picked:
                        continue
                    if isinstance(st, (ast.If, ast.With)):
                        inner = assigned_in([st])
                        hit = inner and None not in inner and nm in inner
                    else:
                        hit = nm in _targets(st)
                    if hit:
                        picked.append(st)
                        changed = True
                known.add(nm)
        # method calls on objects the slice itself creates (f.seek(0, 2)
        # between f = open(...) and size = f.tell())
        made = set()
        for st in picked:
            if isinstance(st, ast.Assign) and isinstance(st.value, ast.Call):
                made |= set(_targets(st))
        for st in node.body:
            if st not in picked and isinstance(st, ast.Expr) and \
                    isinstance(st.value, ast.Call) and \
                    isinstance(st.value.func, ast.Attribute) and \
                    isinstance(st.value.func.value, ast.Name) and \
                    st.value.func.value.id in made and \
                    st.value.func.value.id not in (provided or ()):
                picked.append(st)
        if guards:
            # raise-only ifs over names the slice computes
            assigned = set()
            for st in picked:
                assigned |= set(t for t in (
                    assigned_in([st]) if isinstance(st, ast.If)
                    else _targets(st)) if t)
            for st in node.body:
                if st in picked or not isinstance(st, ast.If) or \
                        st.orelse or not all(isinstance(b, ast.Raise)
                                             for b in st.body):
                    continue
                used = set(n.id for n in ast.walk(st.test)
                           if isinstance(n, ast.Name))
                if used & assigned and used <= (assigned | known):
                    picked.append(st)
        picked.sort(key=lambda st: (st.lineno,
                                    1 if getattr(st, '_synthetic', 0) else 0))
    clsname = qualname.split('.')[-2] if '.' in qualname else None
    mod = ast.Module(body=picked, type_ignores=[])
    mod = _Rewrite().visit(mod)
    if clsname:
        mod = _Mangle(clsname).visit(mod)
    ast.fix_missing_locations(mod)
    code = compile(mod, path + ':<slice %s>' % qualname, 'exec')
    sp = space or TwinSpace()
    src_lines = [ast.unparse(st) for st in picked]

    def run(env):
        g = {'__builtins__': sp.builtins, 'float': sym_float, 'int': sym_int}
        g.update(env)
        exec(code, g)
        return g
    info = {'file': os.path.relpath(path, REPO), 'qualname': qualname,
            'statements': src_lines,
            'sha256': hashlib.sha256('\n'.join(src_lines).encode())
            .hexdigest()[:16]}
    return run, info


class _Mangle(ast.NodeTransformer):
    """private name mangling (self.__x -> self._Class__x) for sliced code"""

    def __init__(self, cls):
        self.cls = cls.lstrip('_')

    def visit_Attribute(self, node):
        self.generic_visit(node)
        if node.attr.startswith('__') and not node.attr.endswith('__'):
            node.attr = '_%s%s' % (self.cls, node.attr)
        return node


def find_assign_values(modname, qualname, want):
    """AST finder: values of assignments anywhere inside the function whose
    target is a plain name in `want` or a subscript  base['KEY']  with
    (base, KEY) in `want`.  Returns {want_item: compiled eval code} plus the
    source text of each; a missing item is a harness error."""
    node, path = get_function_ast(modname, qualname)
    found = {}
    for st in ast.walk(node):
        if not isinstance(st, ast.Assign):
            continue
        for t in st.targets:        # chained  a = b = value  included
            key = None
            if isinstance(t, ast.Name) and t.id in want:
                key = t.id
            elif isinstance(t, ast.Subscript) and \
                    isinstance(t.value, ast.Name):
                sl = t.slice
                if isinstance(sl, ast.Constant) and \
                        (t.value.id, sl.value) in want:
                    key = (t.value.id, sl.value)
            if key is not None and key not in found:
                import copy
                expr = ast.Expression(body=_Rewrite().visit(
                    copy.deepcopy(st.value)))
                ast.fix_missing_locations(expr)
                found[key] = (compile(expr, path + ':<expr>', 'eval'),
                              ast.unparse(st))
    missing = [w for w in want if w not in found]
    if missing:
        raise HarnessError('AST finder %s.%s: no assignment to %r' % (
            modname, qualname, missing))
    return found
