import json
import os
import sys


def main(argv):
    if len(argv) < 2:
        print('usage: run <ID> quick|thorough [--only GLOB] | run <ID> --replay FILE')
        return 3
    pid = argv[0].upper()
    modname = 'checks.' + pid.lower()
    sys.path.insert(0, os.path.dirname(os.path.dirname(os.path.abspath(__file__))))
    root = os.environ.get('VERIF_REPO_ROOT')
    if root:
        # the replay side must import the same tree the twin is built from
        sys.path.insert(0, os.path.join(root, 'src'))
    if argv[1] == '--replay':
        from . import replay
        return replay.main(modname, argv[2])
    tier = os.environ.get('VERIF_TIER') or argv[1]
    if argv[1] in ('quick', 'thorough'):
        tier = argv[1]
    seed = int(os.environ.get('VERIF_SEED', '0') or 0)
    only = None
    if '--only' in argv:
        only = argv[argv.index('--only') + 1]
    jobs = None
    if '--jobs' in argv:
        jobs = int(argv[argv.index('--jobs') + 1])
    from . import harness
    try:
        return harness.main(modname, tier, seed, only, jobs)
    except Exception:
        import traceback
        print('INCONCLUSIVE harness-error ' + traceback.format_exc()[-1500:])
        return 3


if __name__ == '__main__':
    sys.exit(main(sys.argv[1:]))
