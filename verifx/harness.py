"""Obligation runner: explores each obligation's paths with symx, discharges the
claims with z3, replays every sat model and a sample model of every path on the
*unpatched* library, applies the known-findings file, writes evidence and
decides the exit code.

exit 0  no reproduced violation outside known_findings.json
exit 1  reproduced violation  (prints VIOLATION property=<id> replay=<path>)
exit 3  harness error / model mismatch (prints INCONCLUSIVE ...)
"""
import fnmatch
import hashlib
import json
import multiprocessing as mp
import os
import sys
import time
import traceback

import z3

from . import symx, loader

VERIF = os.path.dirname(os.path.dirname(os.path.abspath(__file__)))
# evidence and replay files go to $VERIF_OUT when set (used when a scratch copy
# of the repository is checked, so that the committed evidence is not touched)
OUT = os.environ.get('VERIF_OUT') or VERIF


class H(object):
    """per-path helper handed to the obligation's symbolic function"""

    def __init__(self, ctx, ob):
        self.ctx = ctx
        self.ob = ob
        self.claims = []     # (label, verdict, inputs|None)
        self.obs = {}        # name -> Sym / z3 / concrete
        self.regions = ob.known_regions

    def claim(self, label, prop):
        """prop must hold under the path condition"""
        ctx = self.ctx
        prop = symx._b(prop)
        verdict, inputs = _prove_dyadic(ctx, prop)
        known = None
        if verdict == 'sat' and self.regions:
            # is there also a counterexample outside every known region?
            regs = [r for r in self.regions
                    if fnmatch.fnmatch(label, r.get('label', '*'))]
            if regs:
                zr = [_region_expr(r, ctx) for r in regs]
                inside = z3.Or(*zr) if zr else z3.BoolVal(False)
                v2, in2 = _prove_dyadic(ctx, z3.Or(prop, inside))
                if v2 == 'unsat':
                    known = [r['id'] for r in regs]
                elif v2 == 'sat':
                    inputs = in2  # a violation outside the known regions
                else:
                    verdict = 'unknown'
        rec = {'label': label, 'verdict': verdict, 'inputs': inputs,
               'known': known}
        nalt = getattr(self.ob, 'alt_models', 0)
        if verdict == 'sat' and nalt and not known:
            # further counterexamples of the same claim (each differs from
            # the earlier ones in at least one integer input by a factor):
            # replay tries them when the first model does not reproduce --
            # a model on the rounding boundary of a tolerance is decided
            # differently by real and float arithmetic
            alts = []
            ctx.solver.push()
            try:
                ctx.solver.set('timeout', 3000)
                ctx.solver.add(z3.Not(prop))
                cur = inputs
                for _ in range(nalt):
                    diff = []
                    for k, c in ctx.inputs.items():
                        v = cur.get(k)
                        if isinstance(v, int) and not isinstance(v, bool) \
                                and z3.is_int(c):
                            diff.append(z3.Or(c > 2 * abs(v) + 1,
                                              c < -2 * abs(v) - 1))
                    if not diff:
                        break
                    ctx.solver.add(z3.Or(*diff))
                    if ctx._check() != 'sat':
                        break
                    cur = ctx.model_inputs(ctx.solver.model())
                    alts.append(cur)
            finally:
                ctx.solver.set('timeout', ctx.query_timeout_ms)
                ctx.solver.pop()
            rec['alt_inputs'] = alts
        self.claims.append(rec)
        return verdict

    def candidate(self, label, why):
        """the path itself is the evidence (an exception escaped, a domain
        monitor fired): take a model of the path condition"""
        ctx = self.ctx
        verdict, inputs = _prove_dyadic(ctx, z3.BoolVal(False))
        known = None
        if verdict == 'sat' and self.regions:
            regs = [r for r in self.regions
                    if fnmatch.fnmatch(label, r.get('label', '*'))]
            if regs:
                zr = [_region_expr(r, ctx) for r in regs]
                v2, in2 = _prove_dyadic(ctx, z3.Or(*zr))
                if v2 == 'unsat':
                    known = [r['id'] for r in regs]
                elif v2 == 'sat':
                    inputs = in2
                else:
                    verdict = 'unknown'
        rec = {'label': label, 'verdict': verdict, 'inputs': inputs,
               'known': known, 'why': why, 'candidate': True}
        if verdict == 'sat' and getattr(self.ob, 'real', None):
            # a domain candidate is not a claim about every input of the
            # path: replay now, and offer a few more diverse models of the
            # path condition if the first one does not show a violation
            try:
                r = self.ob.real(inputs)
                if not (r.get('violations') or {}):
                    ctx._base_scopes = ctx.solver.num_scopes()
                    for alt in _more_models(ctx, inputs, 8):
                        r = self.ob.real(alt)
                        if r.get('violations'):
                            rec['inputs'] = alt
                            break
                rec['replayed'] = r
            except Exception:
                rec['replay_error'] = traceback.format_exc(limit=4)
        self.claims.append(rec)

    def observe(self, key, value):
        self.obs[key] = value


def _more_models(ctx, first, k):
    """diverse models of the current path condition for replay attempts:
    pin inputs one by one to values of a small grid where the path
    condition allows it (seeded; replay confirms or refutes, the solver
    only supplies inputs satisfying the path condition)"""
    import random
    rng = random.Random(len(ctx.pc) * 7919 + len(ctx.inputs))
    out = []
    names = list(ctx.inputs)
    # pins make hard instances on paths with non-linear constraints (sqrt,
    # products): short per-pin timeout and an overall budget; the solver's
    # own model remains the fallback
    t_end = time.time() + 10.0
    for _ in range(k):
        ctx.solver.push()
        try:
            order = names[:]
            rng.shuffle(order)
            ctx.solver.set('timeout', 1500)
            for name in order:
                if time.time() > t_end:
                    break
                c = ctx.inputs[name]
                if z3.is_real(c):
                    val = z3.Q(rng.randint(-24, 24), 4)
                elif z3.is_int(c):
                    val = z3.IntVal(rng.randint(-3, 6))
                else:
                    continue
                ctx.solver.push()
                ctx.solver.add(c == val)
                if ctx._check() != 'sat':
                    ctx.solver.pop()
                # else keep the pin (nested scope, popped with the outer)
            # unpinned reals: prefer exactly representable values
            ctx.solver.push()
            ctx.solver.set('timeout', 2500)
            for c in ctx.inputs.values():
                if z3.is_real(c):
                    ctx.solver.add(z3.IsInt(c * 1024))
            r = ctx._check()
            ctx.solver.set('timeout', ctx.query_timeout_ms)
            if r != 'sat':
                ctx.solver.pop()
                r = ctx._check()
            if r == 'sat':
                out.append(ctx.model_inputs(ctx.solver.model()))
        finally:
            # pop everything pushed in this round
            while ctx.solver.num_scopes() > ctx._base_scopes:
                ctx.solver.pop()
    return out


def _region_expr(r, ctx):
    if r.get('region_fn'):
        # "module:function" -> z3 predicate over the symbolic inputs
        import importlib
        mod, fn = r['region_fn'].split(':')
        return getattr(importlib.import_module(mod), fn)(ctx.inputs)
    expr = r.get('region', 'True')
    env = {'And': z3.And, 'Or': z3.Or, 'Not': z3.Not, 'If': z3.If,
           'True': z3.BoolVal(True), 'False': z3.BoolVal(False)}
    env.update(ctx.inputs)
    e = eval(expr, {'__builtins__': {}}, env)
    if isinstance(e, bool):
        e = z3.BoolVal(e)
    return e


def _prove_dyadic(ctx, prop):
    """like ctx.prove, but prefers counterexamples whose real inputs are
    dyadic rationals (exactly representable as floats) so that replay on the
    real float stack sees the same numbers"""
    verdict, inputs = ctx.prove(prop)
    if verdict != 'sat':
        return verdict, inputs
    reals = [c for c in ctx.inputs.values() if z3.is_real(c)]
    if not reals:
        return verdict, inputs
    if getattr(ctx, 'sqrt_defs', None):
        # integrality side conditions on top of s*s == e are mixed
        # non-linear integer/real arithmetic: keep the plain model
        return verdict, inputs
    for den in (8, 1024, 2 ** 20):
        ctx.solver.push()
        ctx.solver.set('timeout', 2500)
        try:
            ctx.solver.add(z3.Not(prop))
            for c in reals:
                ctx.solver.add(z3.IsInt(c * den))
                ctx.solver.add(c < 2 ** 20, c > -2 ** 20)
            if ctx._check() == 'sat':
                return 'sat', ctx.model_inputs(ctx.solver.model())
        finally:
            ctx.solver.set('timeout', ctx.query_timeout_ms)
            ctx.solver.pop()
    inputs = dict(inputs)
    inputs['__inexact__'] = True
    return verdict, inputs


def _all_dyadic(inputs):
    for v in inputs.values():
        if isinstance(v, dict) and 'den' in v:
            d = v['den']
            if d & (d - 1) or d > 2 ** 40 or v.get('algebraic'):
                return False
    return True


def eval_obs(obs, ctx, m):
    def ev(v):
        if isinstance(v, symx.Sym):
            return symx.pyval(m.eval(v.e, model_completion=True))
        if isinstance(v, z3.ExprRef):
            return symx.pyval(m.eval(v, model_completion=True))
        if isinstance(v, (list, tuple)):
            return [ev(x) for x in v]
        if isinstance(v, dict):
            return dict((k, ev(x)) for k, x in v.items())
        try:
            import numpy as np
            if isinstance(v, np.ndarray):
                return [ev(x) for x in v.tolist()] if v.ndim else ev(v[()])
            if isinstance(v, np.generic):
                return v.item()
        except ImportError:
            pass
        if isinstance(v, symx.SymNaN):
            return 'nan'
        return v
    return ev(obs)


class Obligation(object):
    """one proof obligation.

    sym(ctx, h): runs the twin code on symbolic inputs, calls h.claim/
        h.candidate/h.observe.
    real(inputs): drives the *unpatched* library with the concrete inputs of
        a model and evaluates the property with an independent concrete
        oracle.  returns {'obs': {...}, 'violations': {label: detail}}.
    """
    name = None
    bounds = {}
    mode = 'real'
    stubs = ()
    max_paths = 3000
    max_decisions = 400
    timeout_ms = 20000
    validate_paths = 40      # sample models replayed per obligation
    known_regions = ()
    obs_tol = 1e-9

    def sym(self, ctx, h):
        raise NotImplementedError

    def real(self, inputs):
        raise NotImplementedError


def _cmp_obs(a, b, tol):
    """symbolic observation (evaluated under the model) vs. the real stack"""
    if isinstance(a, dict) and 'num' in a:
        a = a['num'] / a['den']
    if isinstance(b, dict) and 'num' in b:
        b = b['num'] / b['den']
    if isinstance(a, (list, tuple)) and isinstance(b, (list, tuple)):
        return len(a) == len(b) and all(_cmp_obs(x, y, tol)
                                        for x, y in zip(a, b))
    if isinstance(a, dict) and isinstance(b, dict):
        return set(a) == set(b) and all(_cmp_obs(a[k], b[k], tol) for k in a)
    if isinstance(a, bool) or isinstance(b, bool):
        return bool(a) == bool(b)
    if isinstance(a, (int, float)) and isinstance(b, (int, float)):
        if a != a and b != b:
            return True
        return abs(a - b) <= tol * max(1.0, abs(a), abs(b))
    if a == 'nan' and isinstance(b, float):
        return b != b
    return a == b


def run_obligation(ob, seed=0):
    """explore one obligation; returns a json-able record"""
    t0 = time.time()
    rec = {'name': ob.name, 'bounds': ob.bounds, 'float_mode': ob.mode,
           'stubs': list(ob.stubs), 'paths': 0, 'feasible_paths': 0,
           'truncated': 0, 'infeasible': 0, 'unknown_paths': 0,
           'queries': 0, 'solver_s': 0.0, 'decisions': 0,
           'claims': 0, 'discharged': 0, 'unknown_claims': 0,
           'confirmed': [], 'known': [], 'mismatch': [],
           'validated': 0, 'samples': [], 'errors': []}
    space_holder = {}
    first = [True]
    path_sigs = set()

    def fn(ctx):
        h = H(ctx, ob)
        prof = None
        if first[0] and hasattr(ob, 'space'):
            pass
        try:
            ob.sym(ctx, h)
        except symx.Candidate as c:
            h.candidate('domain:' + c.what, c.what)
        # validation sample of this path (only when no claim was sat)
        sample = None
        if not any(c['verdict'] == 'sat' for c in h.claims) and \
                rec['validated'] + len(space_holder.get('pending', [])) \
                < ob.validate_paths and getattr(ob, 'real', None):
            v, inputs = _prove_dyadic(ctx, z3.BoolVal(False))
            if v == 'sat':
                # prefer a model with varied values (random pins where the
                # path condition allows) over the solver's all-zero default
                ctx._base_scopes = ctx.solver.num_scopes()
                alt = _more_models(ctx, inputs, 1)
                if alt:
                    inputs = alt[0]
                ctx.solver.push()
                # re-evaluate observations under the same inputs
                for k, c in ctx.inputs.items():
                    val = inputs.get(k)
                    if isinstance(val, dict) and 'num' in val:
                        ctx.solver.add(c == z3.Q(val['num'], val['den']))
                    elif isinstance(val, bool):
                        ctx.solver.add(c == z3.BoolVal(val))
                    elif isinstance(val, int):
                        if z3.is_bv(c):
                            ctx.solver.add(c == z3.BitVecVal(val, c.size()))
                        else:
                            ctx.solver.add(c == val)
                if ctx._check() == 'sat':
                    m = ctx.solver.model()
                    sample = (inputs, eval_obs(h.obs, ctx, m))
                ctx.solver.pop()
        return h, sample

    def on_path(pr):
        rec['paths'] += 1
        rec['queries'] += pr.queries
        rec['solver_s'] += pr.solver_s
        rec['decisions'] += len(pr.decisions or ())
        if pr.status == 'infeasible':
            rec['infeasible'] += 1
            return
        if pr.status == 'truncated':
            rec['truncated'] += 1
            return
        if pr.status == 'unknown' and pr.value is None:
            rec['unknown_paths'] += 1
            return
        if pr.status == 'unknown':
            rec['unknown_paths'] += 1
        rec['feasible_paths'] += 1
        h, sample = pr.value
        sig = hashlib.sha1(repr(pr.decisions).encode()).hexdigest()
        path_sigs.add(sig)
        for c in h.claims:
            rec['claims'] += 1
            if c['verdict'] == 'unsat':
                rec['discharged'] += 1
            elif c['verdict'] == 'unknown':
                rec['unknown_claims'] += 1
                rec.setdefault('unknown_labels', [])
                if len(rec['unknown_labels']) < 10:
                    rec['unknown_labels'].append(c['label'])
            else:
                _replay_claim(ob, c, rec)
        if sample is not None:
            inputs, obs = sample
            try:
                r = ob.real(inputs)
            except Exception as e:
                rec['errors'].append('real() failed on %r: %s' % (
                    inputs, traceback.format_exc(limit=3)))
                return
            if not _all_dyadic(inputs):
                # floats cannot carry this model exactly: a disagreement
                # would say nothing about the encoding
                rec['inexact_samples'] = rec.get('inexact_samples', 0) + 1
                return
            rec['validated'] += 1
            ok = True
            why = None
            extra_labs = getattr(ob, 'replay_only_labels', ())
            beyond = dict((k, v) for k, v in (r.get('violations') or
                                              {}).items()
                          if any(fnmatch.fnmatch(k, g) for g in extra_labs))
            if beyond:
                # the concrete oracle checks more than the symbolic claims
                # (declared per obligation): a failure of such a clause on
                # the real code is a violation in its own right
                lab, detail = list(beyond.items())[0]
                rec['confirmed'].append(_jsonable({
                    'label': lab, 'inputs': inputs, 'observed': detail,
                    'real_label': lab, 'kind': 'replay-oracle',
                    'why': 'clause checked by the replay oracle only'}))
                return
            if r.get('violations'):
                # the independent concrete oracle fails on the real code for
                # an input of a path on which every symbolic claim was
                # discharged: the property is violated on the real code (a
                # violation in its own right) AND the encoding missed it
                # (recorded, so that the gap in the model is visible)
                lab, detail = list(r['violations'].items())[0]
                rec['confirmed'].append(_jsonable({
                    'label': lab, 'inputs': inputs, 'observed': detail,
                    'real_label': lab, 'kind': 'replay-oracle',
                    'why': 'found by the replay oracle; the symbolic model '
                           'of this path did not show it'}))
                rec['model_gaps'] = rec.get('model_gaps', 0) + 1
                return
            elif r.get('obs') is not None and obs:
                for k in obs:
                    if k in r['obs'] and not _cmp_obs(obs[k], r['obs'][k],
                                                      ob.obs_tol):
                        ok = False
                        why = 'observation %s: twin %r real %r' % (
                            k, obs[k], r['obs'][k])
            if not ok:
                rec['mismatch'].append({'inputs': inputs, 'why': why,
                                        'kind': 'validation'})
            if len(rec['samples']) < 3:
                rec['samples'].append({'inputs': inputs, 'twin_obs': obs,
                                       'real_obs': r.get('obs')})

    try:
        results, exhausted = symx.explore(
            fn, max_paths=ob.max_paths, max_decisions=ob.max_decisions,
            query_timeout_ms=ob.timeout_ms, seed=seed, on_path=on_path,
            wall_budget_s=getattr(ob, 'wall_budget_s', None))
        rec['exhausted'] = exhausted
    except Exception as ex:
        from . import loader as _loader
        if isinstance(ex, _loader.HarnessError) or getattr(
                ob, 'encoding_fragile', False):
            # the source no longer has the shape this encoding understands
            # (AST pattern not found, a construct the stub environment does
            # not model): not an alarm and not a pass -- the obligation is
            # inconclusive; the concrete oracle is still run on the
            # obligation's nominated inputs and a failure there is real
            rec['not_encodable'] = '%s: %s' % (type(ex).__name__,
                                               str(ex)[:300])
            _fallback(ob, rec)
        else:
            rec['errors'].append(traceback.format_exc(limit=8))
        rec['exhausted'] = False
    rec['distinct_paths'] = len(path_sigs)
    rec['wall_s'] = round(time.time() - t0, 3)
    rec['solver_s'] = round(rec['solver_s'], 3)
    sp = getattr(ob, '_space', None)
    if sp is not None:
        rec['functions_encoded'] = sp.functions_encoded()
    info = getattr(ob, '_info', None)
    if info is not None:
        rec.setdefault('functions_encoded', []).append({
            'file': info['file'], 'qualname': info['qualname'] + ' (AST slice)',
            'line': 0, 'calls': rec['paths'], 'sha256': info['sha256'],
            'statements': info['statements']})
    return rec


def _fallback(ob, rec):
    fi = getattr(ob, 'fallback_inputs', None)
    cases = fi() if fi else [{}]
    rec['fallback_replays'] = 0
    for inputs in cases:
        try:
            r = ob.real(inputs)
        except Exception:
            rec['errors'].append('real() failed on %r: %s' % (
                inputs, traceback.format_exc(limit=3)))
            return
        rec['fallback_replays'] += 1
        if r.get('violations'):
            lab, detail = list(r['violations'].items())[0]
            rec['confirmed'].append(_jsonable({
                'label': lab, 'inputs': inputs, 'observed': detail,
                'real_label': lab, 'kind': 'fallback-replay',
                'why': 'encoding not applicable (%s); the concrete oracle '
                       'fails on the real code' % rec['not_encodable']}))
            return


def _replay_claim(ob, c, rec):
    """a sat answer is never reported directly: replay on the real library"""
    inputs = c['inputs']
    if c.get('replay_error'):
        rec['errors'].append('replay failed for %s: %s' % (
            c['label'], c['replay_error']))
        return
    if 'replayed' in c:
        r = c['replayed']
    else:
        try:
            r = ob.real(inputs)
        except Exception:
            rec['errors'].append('replay failed for %s: %s' % (
                c['label'], traceback.format_exc(limit=4)))
            return
    viol = r.get('violations') or {}
    if c.get('candidate') and not viol:
        rec['unconfirmed_candidates'] = rec.get('unconfirmed_candidates',
                                                0) + 1
        rec['unknown_claims'] += 1
        return
    hit = None
    for lab, detail in viol.items():
        if lab == c['label'] or fnmatch.fnmatch(c['label'], lab) or \
                fnmatch.fnmatch(lab, c['label']):
            hit = (lab, detail)
            break
    entry = {'label': c['label'], 'inputs': inputs, 'why': c.get('why'),
             'known': c.get('known')}
    if hit is None and viol:
        # the concrete oracle fails on the real code for these inputs, under
        # another label than the symbolic claim's: a violation all the same
        hit = list(viol.items())[0]
    if hit is None and not viol and c.get('alt_inputs'):
        for alt in c['alt_inputs']:
            try:
                r2 = ob.real(alt)
            except Exception:
                continue
            if r2.get('violations'):
                inputs, r, viol = alt, r2, r2['violations']
                entry['inputs'] = alt
                hit = list(viol.items())[0]
                break
    if hit is None and c.get('known'):
        # a recorded finding whose counterexample no longer fails on the
        # real code (repaired, possibly in a part the twin does not encode):
        # no KNOWN-FINDING line, no alarm
        rec.setdefault('known_not_reproduced', []).append(_jsonable(entry))
        return
    if hit is None:
        entry['real'] = r
        entry['kind'] = 'replay'
        rec['mismatch'].append(_jsonable(entry))
        return
    entry['observed'] = hit[1]
    entry['real_label'] = hit[0]
    if c.get('known'):
        rec['known'].append(_jsonable(entry))
    else:
        rec['confirmed'].append(_jsonable(entry))


def _jsonable(x):
    try:
        json.dumps(x)
        return x
    except TypeError:
        return json.loads(json.dumps(x, default=repr))


# --------------------------------------------------------------------------

def load_known(prop):
    p = os.path.join(VERIF, 'known_findings.json')
    if not os.path.exists(p):
        return []
    with open(p) as f:
        data = json.load(f)
    return [e for e in data.get('findings', []) if e['property'] == prop
            and e.get('status', 'open') == 'open']


def _worker(args):
    modname, idx, tier, seed = args
    import importlib
    import warnings
    warnings.simplefilter('ignore')
    mod = importlib.import_module(modname)
    obs = mod.obligations(tier)
    ob = obs[idx]
    known = load_known(mod.PROPERTY)
    ob.known_regions = [k for k in known
                        if fnmatch.fnmatch(ob.name, k.get('obligation', '*'))]
    try:
        return run_obligation(ob, seed)
    except BaseException:
        return {'name': ob.name, 'errors': [traceback.format_exc(limit=8)],
                'paths': 0, 'feasible_paths': 0, 'claims': 0, 'discharged': 0,
                'confirmed': [], 'known': [], 'mismatch': [], 'queries': 0,
                'solver_s': 0, 'truncated': 0, 'unknown_claims': 0,
                'validated': 0, 'samples': [], 'decisions': 0,
                'distinct_paths': 0, 'unknown_paths': 0, 'infeasible': 0}


def _child(conn, task):
    try:
        conn.send(_worker(task))
    except BaseException:
        try:
            conn.send({'name': '?', 'errors': [traceback.format_exc(limit=5)]})
        except Exception:
            pass
    finally:
        conn.close()


def _run_pool(tasks, jobs, budget, obs):
    ctxm = mp.get_context('fork')
    pending = list(enumerate(tasks))
    running = {}
    recs = [None] * len(tasks)
    while pending or running:
        while pending and len(running) < jobs:
            i, t = pending.pop(0)
            pc, cc = ctxm.Pipe(False)
            p = ctxm.Process(target=_child, args=(cc, t))
            p.start()
            cc.close()
            running[i] = (p, pc, time.time(), t)
        done = []
        for i, (p, pc, t0, t) in running.items():
            if pc.poll(0):
                try:
                    recs[i] = pc.recv()
                except EOFError:
                    recs[i] = None
                p.join(5)
                done.append(i)
            elif not p.is_alive():
                p.join()
                done.append(i)
            elif time.time() - t0 > budget:
                p.terminate()
                p.join(5)
                if p.is_alive():
                    p.kill()
                recs[i] = _timeout_rec(obs[t[1]].name, budget)
                done.append(i)
        for i in done:
            p, pc, t0, t = running.pop(i)
            pc.close()
            if recs[i] is None:
                recs[i] = _timeout_rec(obs[t[1]].name, budget,
                                       'worker died without a result')
        if not done:
            time.sleep(0.02)
    return recs


def _timeout_rec(name, budget, why=None):
    return {'name': name, 'errors': [], 'paths': 0, 'feasible_paths': 1,
            'claims': 0, 'discharged': 0, 'confirmed': [], 'known': [],
            'mismatch': [], 'queries': 0, 'solver_s': 0, 'truncated': 1,
            'unknown_claims': 0, 'validated': 0, 'samples': [],
            'decisions': 0, 'distinct_paths': 0, 'unknown_paths': 0,
            'infeasible': 0, 'exhausted': False,
            'timeout': why or 'wall budget %ds exceeded' % budget}


def main(modname, tier, seed=0, only=None, jobs=None):
    import importlib
    t0 = time.time()
    mod = importlib.import_module(modname)
    prop = mod.PROPERTY
    obs = mod.obligations(tier)
    idxs = [i for i, o in enumerate(obs)
            if only is None or fnmatch.fnmatch(o.name, only)]
    jobs = jobs or int(os.environ.get('VERIF_JOBS', '16'))
    tasks = [(modname, i, tier, seed) for i in idxs]
    # watchdog: an obligation that exceeds its wall budget (a solver call
    # that ignores its timeout, a runaway path explosion on modified code)
    # is terminated and reported as inconclusive, never as success
    budget = getattr(mod, 'OBLIGATION_WALL_S', {}).get(
        tier, 240 if tier == 'quick' else 1800)
    recs = _run_pool(tasks, jobs, budget, obs)
    extra = {}
    if hasattr(mod, 'extra_checks'):
        extra = mod.extra_checks(tier, seed) or {}
    return finish(mod, prop, tier, seed, recs, extra, time.time() - t0)


def finish(mod, prop, tier, seed, recs, extra, wall):
    known_defs = dict((k['id'], k) for k in load_known(prop))
    violations = []
    known_hits = {}
    mismatches = []
    errors = []
    for r in recs:
        for c in r.get('confirmed', []):
            violations.append((r['name'], c))
        for c in r.get('known', []):
            for kid in c['known']:
                known_hits.setdefault(kid, (r['name'], c))
        for m in r.get('mismatch', []):
            mismatches.append((r['name'], m))
        for e in r.get('errors', []):
            errors.append((r['name'], e))
        if r.get('feasible_paths', 0) == 0 and not r.get('errors') and \
                not r.get('not_encodable'):
            errors.append((r['name'], 'vacuous: no feasible path reached '
                           'the end of the harness'))
    for r in extra.get('violations', []):
        violations.append(r)
    for e in extra.get('errors', []):
        errors.append(e)
    for kid, hit in extra.get('known', {}).items():
        known_hits.setdefault(kid, hit)
    tot = lambda k: sum(r.get(k, 0) for r in recs)  # noqa
    inconclusive = [r['name'] for r in recs if r.get('truncated') or
                    r.get('unknown_claims') or r.get('unknown_paths') or
                    not r.get('exhausted', True)]
    for r in recs:
        if r.get('not_encodable'):
            print('NOT-ENCODABLE obligation=%s %s (concrete oracle run on %d '
                  'nominated inputs)' % (r['name'], r['not_encodable'],
                                         r.get('fallback_replays', 0)))
    funcs = {}
    for r in recs:
        for f in r.pop('functions_encoded', []) or []:
            funcs[(f['file'], f['qualname'])] = f
    samples = []
    for r in recs:
        for s in r.get('samples', [])[:1]:
            samples.append({'obligation': r['name'], 'sample': s})
    samples = samples[:12] + extra.get('samples', [])
    if not samples:
        samples = [{'obligation': r['name'], 'bounds': r.get('bounds')}
                   for r in recs[:5]]
    replay_paths = []
    seen_v = {}
    uniq = []
    for name, c in violations:
        key = (name, c.get('real_label') or c.get('label'))
        seen_v[key] = seen_v.get(key, 0) + 1
        if seen_v[key] == 1:
            uniq.append((name, c))
    n_viol = len(violations)
    violations = uniq[:40]
    for name, c in violations:
        d = os.path.join(OUT, 'replays', prop)
        os.makedirs(d, exist_ok=True)
        blob = json.dumps({'property': prop, 'module': mod.__name__,
                           'tier': tier, 'obligation': name, 'case': c},
                          sort_keys=True, indent=1, default=repr)
        hname = hashlib.sha1(blob.encode()).hexdigest()[:12] + '.json'
        with open(os.path.join(d, hname), 'w') as f:
            f.write(blob)
        replay_paths.append(os.path.join(d, hname))
    ev = {
        'property_id': prop, 'tier': tier, 'seed': seed,
        'level': getattr(mod, 'LEVEL', 'model_checking'),
        'wall_s': round(wall, 2),
        'violations': 0,
        'assumptions': list(getattr(mod, 'ASSUMPTIONS', [])),
        'coverage': {
            'evaluations': tot('queries') + extra.get('queries', 0),
            'distinct_nontrivial': tot('distinct_paths') +
            extra.get('distinct', 0),
            'rule': 'evaluations = SMT queries issued (branch feasibility + '
                    'claim checks); a case = one feasible symbolic path of '
                    'the real code (distinct decision sequence) on which at '
                    'least one claim was decided over all inputs satisfying '
                    'its path condition' + extra.get('rule', ''),
            'states': max(1, tot('feasible_paths') + extra.get('distinct', 0)),
            'transitions': max(1, tot('decisions') + extra.get('queries', 0)),
            'traces_validated_against_impl': tot('validated') +
            extra.get('validated', 0),
            'obligations': tot('claims') + extra.get('claims', 0),
            'discharged': tot('discharged') + extra.get('discharged', 0),
            'unknown_claims': tot('unknown_claims'),
            'truncated_paths': tot('truncated'),
            'inconclusive_obligations': inconclusive +
            extra.get('inconclusive', []),
            'solver_s': round(sum(r.get('solver_s', 0) for r in recs) +
                              extra.get('solver_s', 0), 2),
            'solver': 'z3 ' + z3.get_version_string(),
            'functions_encoded': sorted(funcs.values(),
                                        key=lambda f: (f['file'], f['line'])),
            'known_findings_seen': sorted(known_hits),
            'model_mismatches': len(mismatches),
            'harness_errors': len(errors),
            'samples': samples,
            'per_obligation': [dict((k, v) for k, v in r.items()
                                    if k not in ('samples',))
                               for r in recs] + extra.get('records', []),
            'exhaustive': False,
        },
    }
    ev['violations'] = n_viol
    os.makedirs(os.path.join(OUT, 'evidence'), exist_ok=True)
    with open(os.path.join(OUT, 'evidence', prop + '.json'), 'w') as f:
        json.dump(ev, f, indent=1, default=repr)
    print('%s %s: %d obligations, %d paths (%d feasible), %d claims, '
          '%d discharged, %d unknown, %d truncated, %d validated, '
          '%.1fs wall, %.1fs solver' % (
              prop, tier, len(recs), tot('paths'), tot('feasible_paths'),
              ev['coverage']['obligations'], ev['coverage']['discharged'],
              tot('unknown_claims'), tot('truncated'),
              ev['coverage']['traces_validated_against_impl'], wall,
              ev['coverage']['solver_s']))
    for kid in sorted(known_hits):
        what = known_defs.get(kid, {}).get('what', kid)
        print('KNOWN-FINDING: property=%s %s [%s]' % (prop, what, kid))
    if inconclusive:
        print('INCONCLUSIVE (not counted as discharged): %s' %
              ', '.join(inconclusive[:8]) +
              (' ...' if len(inconclusive) > 8 else ''))
    rc = 0
    if mismatches or errors:
        for name, m in mismatches[:5]:
            print('INCONCLUSIVE model-mismatch obligation=%s %s' % (
                name, json.dumps(m, default=repr)[:600]))
        for name, e in errors[:5]:
            print('INCONCLUSIVE harness-error obligation=%s %s' % (
                name, str(e)[-800:]))
        rc = 3
    if violations:
        for p, (name, c) in zip(replay_paths, violations):
            print('VIOLATION property=%s replay=%s' % (prop, p))
            print('  obligation=%s label=%s observed=%s' % (
                name, c.get('label'), str(c.get('observed'))[:300]))
        rc = 1
    return rc
