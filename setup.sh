#!/bin/sh
# offline: overlay venv on /venv (which holds numpy/scipy/netCDF4 and the editable repo)
set -e
cd "$(dirname "$0")"
rm -rf .venv
/venv/bin/python -m venv .venv
echo "import site; site.addsitedir('/venv/lib/python3.12/site-packages')" > .venv/lib/python3.12/site-packages/_overlay.pth
PIP_NO_INDEX=1 .venv/bin/pip install -q --no-index --find-links /opt/veriftools/wheels z3-solver crosshair-tool cvc5
.venv/bin/python -W ignore -c "import z3, numpy; print('setup ok', z3.get_version_string(), numpy.__version__)"
