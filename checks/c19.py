"""C19 -- ICARTT (ffi1001) write/read round trip: header layout and missing
codes.

L1 (layout): the reader's line classifier (the if/elif chain on the line
number in ffi1001.__init__, AST-extracted) is evaluated symbolically for a
header with d dependent variables and a user-comment attributes and compared
with the layout the writer emits (its declared line count is AST-extracted from
ncf2ffi1001; its concrete header is recorded for small d, a and must match the
general form).
L3 (record table): the reader's data section (text -> lines -> genfromtxt ->
reshape/swapaxes -> per-variable column) and the writer's row loop are
AST-extracted and run on index maps (shape + origin of every cell) with a
symbolic record count n and a symbolic cell (c, r): record r of variable c is
read back as record r of variable c, POINTS == n, one line per record.
L2 (missing codes): the writer's header text of a missing code (str / %g / ...)
and its data text (%.6e) are AST-extracted and modelled as decimal roundings;
for a symbolic integer code both must parse to the same number, otherwise the
reader's mask (dat == miss) is lost."""
import ast
import io
import os
import tempfile

import numpy as np
import z3

from verifx import symx, loader
from verifx.harness import Obligation
from verifx.symx import frac_of
from . import common

PROPERTY = 'C19'
LEVEL = 'model_checking'
ASSUMPTIONS = [
    'printf/str formatting of numbers is modelled as correctly rounded '
    'decimal rounding to the format\'s significant digits (str/repr exact, '
    '%g 6, %.Ne N+1 digits); reading text back is exact',
    'attribute values are single-line strings (an attribute containing a '
    'newline makes the declared header count wrong: see DESIGN)',
    'numpy.genfromtxt is its shape contract (n lines of v numbers -> (n, v), '
    'a single line squeezed to (v,), unpack/ndmin honoured); data values '
    'themselves and names/units string handling are outside',
    'missing codes: integers with |m| < 10**9; round trip claimed for '
    'codes of at most 7 significant digits (the format\'s precision)',
]

MANIFEST = {
    'category': 'model_checking',
    'technique': 'AST-extracted line classifier of the real reader and '
                 'AST-extracted count/format expressions of the real writer '
                 'evaluated on symbolic counts and codes; index-map '
                 'interpretation of the reader data section / writer row '
                 'loop with a symbolic record count; l100.isMine executed '
                 'symbolically on a file of symbolic length; SMT validity; '
                 'replay by writing and re-reading a real file',
    'text': 'Bounded symbolic checking of two kernels of the ICARTT round '
            'trip: (L1) for ANY number of dependent variables d >= 1 and '
            'header attributes a >= 0 the reader interprets every header '
            'line as the item the writer put there and the declared header '
            'line count equals the lines emitted; (L2) for every integer '
            'missing code of at most 7 significant digits the code declared '
            'in the header equals the value written into masked cells, so '
            'the mask survives; (L3) for ANY record count n >= 1 (2-3 '
            'variables quick, up to 6 thorough) record r of variable c is '
            'written to line r, column c and read back into cell r of '
            'variable c, with POINTS == n (index-map model of the shape-only '
            'numpy calls between text and variables); (L4) for every output '
            'length of 17..400 lines the position-based text reader asked '
            'before ffi1001 (noaafiles.l100.isMine, run whole on a file of '
            'symbolic length) does not claim the file, and the replayed '
            'pncopen auto-detects ffi1001.',
    'note': 'Trusted: z3, the decimal-rounding model of printf, the shape '
            'contract of numpy.genfromtxt. Data values are outside.',
}

MOD = 'PseudoNetCDF.icarttfiles.ffi1001'


class LenStub(object):
    def __init__(self, n):
        self.n = n

    def __symlen__(self):
        return self.n


def _symlen(x):
    if isinstance(x, LenStub):
        return x.n
    return len(x)


def _find_chain():
    """the if/elif chain `if li == PI_LINE: ... elif ...` of the reader"""
    node, path = loader.get_function_ast(MOD, 'ffi1001.__init__')
    for n in ast.walk(node):
        if isinstance(n, ast.If) and isinstance(n.test, ast.Compare) and \
                isinstance(n.test.left, ast.Name) and n.test.left.id == 'li' \
                and any(isinstance(c, ast.Name) and c.id == 'PI_LINE'
                        for c in n.test.comparators):
            chain = []
            cur = n
            while True:
                chain.append((cur.test, cur.body))
                if len(cur.orelse) == 1 and isinstance(cur.orelse[0], ast.If):
                    cur = cur.orelse[0]
                else:
                    break
            return chain, path
    raise loader.HarnessError('ffi1001.__init__: line classifier not found')


def _kind(body):
    """classify a branch by what it assigns"""
    names = set()
    for st in body:
        for n in ast.walk(st):
            if isinstance(n, ast.Name) and isinstance(n.ctx, ast.Store):
                names.add(n.id)
            if isinstance(n, ast.Attribute) and isinstance(n.ctx, ast.Store):
                names.add('self.' + n.attr)
            if isinstance(n, ast.Call) and isinstance(n.func, ast.Attribute) \
                    and n.func.attr == 'append' and \
                    isinstance(n.func.value, ast.Name):
                names.add(n.func.value.id + '.append')
            if isinstance(n, ast.Call) and isinstance(n.func, ast.Name) \
                    and n.func.id == 'setattr':
                names.add('setattr')
    for key, k in (('self.PI_NAME', 'pi'), ('self.ORGANIZATION_NAME', 'org'),
                   ('self.SOURCE_DESCRIPTION', 'source'),
                   ('self.MISSION_NAME', 'mission'),
                   ('self.VOLUME_INFO', 'volume'), ('self.SDATE', 'date'),
                   ('self.TIME_INTERVAL', 'interval'),
                   ('self.INDEPENDENT_VARIABLE', 'indep'),
                   ('scales', 'scales'), ('missing', 'missing'),
                   ('n_special_comments', 'nspecial'),
                   ('variables', 'names')):
        if key in names:
            return k
    if 'units.append' in names:
        return 'varline'
    if 'setattr' in names and 'colon_pos' in names and 'v' in names:
        return 'comment'
    if names == {'lastattr'}:
        return 'usercount'
    return 'other:' + ','.join(sorted(names))


class Layout(Obligation):
    encoding_fragile = True          # AST extraction from ffi1001/ncf2ffi1001

    def fallback_inputs(self):
        return [{}, {'d': 1, 'a': 0}, {'d': 3, 'a': 2}, {'d': 12, 'a': 7}]
    mode = 'int'
    validate_paths = 4
    name = 'header-layout[d,a unbounded]'
    bounds = {'dependent variables d': '>= 1 unbounded',
              'attributes a': '>= 0 unbounded'}
    stubs = ('len() of the missing list (symbolic count)',)

    def _prep(self):
        sp = loader.TwinSpace()
        R = sp.twin(MOD)
        chain, path = _find_chain()
        tests = []
        for test, body in chain:
            e = ast.Expression(body=loader._Rewrite().visit(test))
            ast.fix_missing_locations(e)
            tests.append((compile(e, path + ':<test>', 'eval'),
                          _kind(body), ast.unparse(test)))
        # layout parameters assigned just before the chain
        wanted = ['LAST_VAR_DESC_LINE', 'SPECIAL_COMMENT_COUNT_LINE',
                  'LAST_SPECIAL_COMMENT_LINE', 'USER_COMMENT_COUNT_LINE']
        params = loader.find_assign_values(MOD, 'ffi1001.__init__', wanted)
        count = loader.find_assign_values(MOD, 'ncf2ffi1001',
                                          ['myattrs', 'depvarkeys'])
        node, _ = loader.get_function_ast(MOD, 'ncf2ffi1001')
        decl = None
        for n in ast.walk(node):
            if isinstance(n, ast.Call) and isinstance(n.func, ast.Name) and \
                    n.func.id == 'print' and n.args and \
                    isinstance(n.args[0], ast.BinOp) and \
                    isinstance(n.args[0].left, ast.Constant) and \
                    n.args[0].left.value == '%d, %d':
                decl = n.args[0].right.elts[0]
        if decl is None:
            raise loader.HarnessError('ncf2ffi1001: header count print not '
                                      'found')
        de = ast.Expression(body=loader._Rewrite().visit(decl))
        ast.fix_missing_locations(de)
        self._info = {'file': 'src/PseudoNetCDF/icarttfiles/ffi1001.py',
                      'qualname': 'ffi1001.__init__ line classifier + '
                                  'ncf2ffi1001 header count',
                      'statements': [t[2] for t in tests] +
                      [ast.unparse(decl)], 'sha256': ''}
        import hashlib
        self._info['sha256'] = hashlib.sha256('\n'.join(
            self._info['statements']).encode()).hexdigest()[:16]
        return sp, R, tests, params, compile(de, 'decl', 'eval')

    def sym(self, ctx, h):
        sp, R, tests, params, declcode = self._prep()
        self._space = None
        d = ctx.int('d', 1, 10 ** 6)
        a = ctx.int('a', 0, 10 ** 6)
        li = ctx.int('li', 2, 3 * 10 ** 6)
        b = dict(sp.builtins)
        b['len'] = _symlen
        env0 = dict(R.__dict__)
        env0['__builtins__'] = b
        # declared header line count of the writer
        declared = eval(declcode, dict(env0, myattrs=LenStub(a),
                                       depvarkeys=LenStub(d)))
        h.claim('declared-count', symx._b(declared == 15 + d + a))
        n = 15 + d + a
        ctx.assume(li.e <= symx._num(n)[1], check=False)
        # state of the reader when it looks at line li
        lenmissing = symx.SymInt(z3.If(li.e > 12, d.e, 0))
        me = type('S', (), {})()
        me.n_header_lines = declared
        env = dict(env0, li=li, missing=LenStub(lenmissing),
                   n_special_comments=0, self=me)
        for k in ('LAST_VAR_DESC_LINE', 'SPECIAL_COMMENT_COUNT_LINE',
                  'LAST_SPECIAL_COMMENT_LINE', 'USER_COMMENT_COUNT_LINE'):
            env[k] = eval(params[k][0], env)
        # which branch fires (first true test), as a z3 term
        kinds = [t[1] for t in tests]
        idx = z3.IntVal(len(tests))
        for i in range(len(tests) - 1, -1, -1):
            c = eval(tests[i][0], env)
            ce = c.e if isinstance(c, symx.SymBool) else z3.BoolVal(bool(c))
            idx = z3.If(ce, i, idx)

        def fires(kind):
            ks = [i for i, k in enumerate(kinds) if k == kind]
            return z3.Or(*[idx == i for i in ks]) if ks else z3.BoolVal(False)
        # the writer's general layout
        L = li.e
        de, ae = d.e, a.e
        exp = [('pi', L == 2), ('org', L == 3), ('source', L == 4),
               ('mission', L == 5), ('volume', L == 6), ('date', L == 7),
               ('interval', L == 8), ('indep', L == 9),
               ('scales', L == 11), ('missing', L == 12),
               ('varline', z3.And(L >= 13, L <= 12 + de)),
               ('nspecial', L == 13 + de),
               ('usercount', L == 14 + de),
               ('comment', z3.And(L >= 15 + de, L <= 14 + de + ae)),
               ('names', L == 15 + de + ae)]
        for kind, where in exp:
            h.claim('line-kind:' + kind, z3.Implies(where, fires(kind)))
        h.claim('line-10-unclassified', z3.Implies(
            L == 10, idx == len(tests)))
        h.observe('ok', True)

    def real(self, inputs):
        """write and re-read a real file with d variables and a attributes"""
        import warnings
        d = max(1, min(int(frac_of(inputs.get('d', 2))), 4))
        a = max(0, min(int(frac_of(inputs.get('a', 1))), 4))
        viol = {}
        tmp = tempfile.mkdtemp(prefix='verif_c19_')
        path = os.path.join(tmp, 'x.ict')
        try:
            with warnings.catch_warnings():
                warnings.simplefilter('ignore')
                from PseudoNetCDF import PseudoNetCDFFile
                from PseudoNetCDF.icarttfiles.ffi1001 import ffi1001, \
                    ncf2ffi1001
                f = PseudoNetCDFFile()
                f.createDimension('POINTS', 3)
                t = f.createVariable('Start_UTC', 'd', ('POINTS',))
                t[:] = [0., 60., 120.]
                t.units = 's'
                names = ['V%d_ppb' % i for i in range(d)]
                for i, n_ in enumerate(names):
                    v = f.createVariable(n_, 'd', ('POINTS',))
                    v[:] = [1.5 + i, 2.5, 3.25]
                    v.units = 'ppb'
                    v.missing_value = -9999
                f.SDATE = '2004, 01, 10,'
                f.WDATE = '2004, 01, 11'
                f.INDEPENDENT_VARIABLE = 'Start_UTC'
                for i in range(a):
                    setattr(f, 'ATTR%d' % i, 'value %d' % i)
                try:
                    ncf2ffi1001(f, path).close()
                    g = ffi1001(path)
                    got = [k for k in g.variables if k != 'Start_UTC']
                    if got != names:
                        viol['line-kind:names'] = 'names %r read as %r' % (
                            names, got)
                    lines = open(path).read().split('\n')
                    if int(lines[0].split(',')[0]) != 15 + d + a:
                        viol['declared-count'] = lines[0]
                    for i in range(a):
                        if getattr(g, 'ATTR%d' % i, None) != 'value %d' % i:
                            viol['line-kind:comment'] = 'attribute lost'
                except Exception as ex:
                    viol['line-kind:raised'] = repr(ex)[:200]
        finally:
            for fn in os.listdir(tmp):
                os.remove(os.path.join(tmp, fn))
            os.rmdir(tmp)
        return {'obs': {'ok': True}, 'violations': viol, 'd': d, 'a': a}

    any_violation_confirms = True


def _round_sig(m, k):
    """z3: integer m rounded half-even to k significant decimal digits
    (|m| < 10**9)"""
    a = z3.If(m >= 0, m, -m)
    out = a
    for D in range(9, k, -1):           # D digits -> drop D-k digits
        q = 10 ** (D - k)
        lo = 10 ** (D - 1)
        f = a / q
        r = a % q
        two = 2 * r
        rounded = z3.If(two < q, f, z3.If(two > q, f + 1,
                                          z3.If(f % 2 == 0, f, f + 1))) * q
        out = z3.If(a >= lo, rounded, out) if D == 9 else \
            z3.If(z3.And(a >= lo, a < lo * 10), rounded, out)
    return z3.If(m >= 0, out, -out)


def _sig_digits(fmt):
    """significant digits kept by a printf-style format, None = exact"""
    import re
    if fmt in ('str', 'repr', '%d', '%i', '%s', '%r'):
        return None
    m = re.fullmatch(r'%\.(\d+)e', fmt)
    if m:
        return int(m.group(1)) + 1
    m = re.fullmatch(r'%\.(\d+)g', fmt)
    if m:
        return max(int(m.group(1)), 1)
    if fmt == '%g':
        return 6
    if fmt == '%e':
        return 7
    raise loader.HarnessError('unknown number format %r' % fmt)


class MissingCode(Obligation):
    encoding_fragile = True          # AST extraction of the writer formats

    def fallback_inputs(self):
        return [{}, {'m': -9999}, {'m': -8888888}, {'m': 9999999}]
    mode = 'int'
    validate_paths = 3
    name = 'missing-code-formats'
    bounds = {'code': 'integer, |m| < 10**9'}

    def _formats(self):
        node, path = loader.get_function_ast(MOD, 'ncf2ffi1001')
        data_fmt = hdr_fmt = None
        stm = []
        carriers = set()
        for n in ast.walk(node):
            if isinstance(n, ast.Assign) and len(n.targets) == 1 and \
                    isinstance(n.targets[0], ast.Name) and \
                    'missing_value' in ast.unparse(n.value):
                carriers.add(n.targets[0].id)
        for n in ast.walk(node):
            if isinstance(n, ast.Call) and isinstance(n.func, ast.Attribute) \
                    and n.func.attr == 'tofile':
                for kw in n.keywords:
                    if kw.arg == 'format' and isinstance(kw.value,
                                                         ast.Constant):
                        data_fmt = kw.value.value
                        stm.append(ast.unparse(n))
            # the header line: delim.join([<fmt>(getattr(..,'missing_value'
            # -- directly, or over a name bound to such a list
            if isinstance(n, ast.ListComp):
                src = ast.unparse(n)
                it = n.generators[0].iter
                derived = isinstance(it, ast.Name) and it.id in carriers
                e = n.elt
                formats = isinstance(e, ast.BinOp) or (
                    isinstance(e, ast.Call) and isinstance(e.func, ast.Name)
                    and e.func.id in ('str', 'repr'))
                if ('missing_value' in src or derived) and formats:
                    stm.append(src)
                    if isinstance(e, ast.Call) and isinstance(e.func,
                                                              ast.Name):
                        hdr_fmt = e.func.id
                    elif isinstance(e, ast.BinOp) and isinstance(
                            e.op, ast.Mod) and isinstance(e.left,
                                                          ast.Constant):
                        hdr_fmt = e.left.value
        if data_fmt is None or hdr_fmt is None:
            raise loader.HarnessError('ncf2ffi1001: formats not found')
        import hashlib
        self._info = {'file': 'src/PseudoNetCDF/icarttfiles/ffi1001.py',
                      'qualname': 'ncf2ffi1001 (number formats)',
                      'statements': stm,
                      'sha256': hashlib.sha256('\n'.join(stm).encode())
                      .hexdigest()[:16]}
        return hdr_fmt, data_fmt

    def sym(self, ctx, h):
        hdr_fmt, data_fmt = self._formats()
        self._space = None
        m = ctx.int('m', -(10 ** 9) + 1, 10 ** 9 - 1)
        kh, kd = _sig_digits(hdr_fmt), _sig_digits(data_fmt)
        hv = m.e if kh is None else _round_sig(m.e, kh)
        dv = m.e if kd is None else _round_sig(m.e, kd)
        h.observe('formats', [hdr_fmt, data_fmt])
        # codes the format can carry (<= 7 significant digits)
        fits = _round_sig(m.e, 7) == m.e
        h.claim('mask-survives:code-within-7-digits',
                z3.Implies(fits, hv == dv))
        h.claim('mask-survives:any-code', hv == dv)

    def real(self, inputs):
        import warnings
        m = int(frac_of(inputs.get('m', -9999)))
        viol = {}
        tmp = tempfile.mkdtemp(prefix='verif_c19_')
        path = os.path.join(tmp, 'm.ict')
        try:
            with warnings.catch_warnings():
                warnings.simplefilter('ignore')
                from PseudoNetCDF import PseudoNetCDFFile
                from PseudoNetCDF.icarttfiles.ffi1001 import ffi1001, \
                    ncf2ffi1001
                f = PseudoNetCDFFile()
                f.createDimension('POINTS', 3)
                t = f.createVariable('Start_UTC', 'd', ('POINTS',))
                t[:] = [0., 60., 120.]
                t.units = 's'
                v = f.createVariable('X_ppb', 'd', ('POINTS',),
                                     fill_value=m)
                v[:] = np.ma.masked_values([1.5, float(m), 3.25], float(m))
                v.units = 'ppb'
                v.missing_value = m
                f.SDATE = '2004, 01, 10,'
                f.WDATE = '2004, 01, 11'
                f.INDEPENDENT_VARIABLE = 'Start_UTC'
                try:
                    ncf2ffi1001(f, path).close()
                    g = ffi1001(path)
                    mask = np.ma.getmaskarray(g.variables['X_ppb'][:])
                    if mask.tolist() != [False, True, False]:
                        lab = 'mask-survives:code-within-7-digits' \
                            if len(str(abs(m)).rstrip('0')) <= 7 else \
                            'mask-survives:any-code'
                        viol[lab] = 'missing code %d: mask read back %r' % (
                            m, mask.tolist())
                except Exception as ex:
                    viol['mask-survives:raised'] = repr(ex)[:200]
        finally:
            for fn in os.listdir(tmp):
                os.remove(os.path.join(tmp, fn))
            os.rmdir(tmp)
        return {'obs': {}, 'violations': viol, 'code': m}


# ---------------------------------------------------------------------------
# L3: the record table -- which text cell ends up in which variable cell
# ---------------------------------------------------------------------------
def _z(x):
    """z3 Int term of a python int / SymInt / z3 term"""
    if isinstance(x, z3.ExprRef):
        return x
    if isinstance(x, symx.SymInt):
        return x.e
    if isinstance(x, (int, np.integer)) and not isinstance(x, bool):
        return z3.IntVal(int(x))
    raise loader.HarnessError('record table: index of type %s' %
                              type(x).__name__)


class IndexMap(object):
    """An array known only by its shape (python ints or symbolic ints) and
    by where each cell comes from: fn(index terms) -> (variable c, record r)
    as z3 terms.  Models the shape-only numpy calls the reader and writer
    use between the text and the variables."""

    def __init__(self, shape, fn):
        self.shape = tuple(shape)
        self.fn = fn

    ndim = property(lambda self: len(self.shape))

    def _size(self):
        out = z3.IntVal(1)
        for d in self.shape:
            out = out * _z(d)
        return z3.simplify(out)

    def __len__(self):
        raise loader.HarnessError('record table: len() of a symbolic array')

    def __symlen__(self):
        return self.shape[0]

    def _perm(self, order):
        order = tuple(order)
        fn = self.fn

        def g(*idx):
            src = [None] * len(order)
            for k, ax in enumerate(order):
                src[ax] = idx[k]
            return fn(*src)
        return IndexMap([self.shape[a] for a in order], g)

    @property
    def T(self):
        return self._perm(range(self.ndim - 1, -1, -1))

    def transpose(self, *axes):
        if len(axes) == 1 and isinstance(axes[0], (tuple, list)):
            axes = tuple(axes[0])
        if not axes or axes == (None,):
            return self.T
        return self._perm([a % self.ndim for a in axes])

    def swapaxes(self, a, b):
        if self.ndim < 2:
            raise ValueError('bad axis1 argument to swapaxes')
        order = list(range(self.ndim))
        a, b = a % self.ndim, b % self.ndim
        order[a], order[b] = order[b], order[a]
        return self._perm(order)

    def ravel(self):
        return self.reshape(-1)

    def view(self, *a, **k):
        return self

    def astype(self, *a, **k):
        return self

    def copy(self):
        return self

    def reshape(self, *shape, **kw):
        if len(shape) == 1 and isinstance(shape[0], (tuple, list)):
            shape = tuple(shape[0])
        ctx = symx.cur()
        size = self._size()
        shape = list(shape)
        neg = [i for i, d in enumerate(shape)
               if isinstance(d, int) and d == -1]
        if len(neg) > 1:
            raise ValueError('can only specify one unknown dimension')
        if neg:
            rest = z3.IntVal(1)
            for i, d in enumerate(shape):
                if i != neg[0]:
                    rest = rest * _z(d)
            q = z3.Int('rs%d' % ctx.nfresh)
            ctx.nfresh += 1
            if not ctx.branch(z3.And(rest > 0, size % rest == 0)):
                raise ValueError('cannot reshape array')
            ctx.assume(q * rest == size, check=False)
            shape[neg[0]] = symx.SymInt(q)
        else:
            new = z3.IntVal(1)
            for d in shape:
                new = new * _z(d)
            if not ctx.branch(z3.simplify(new == size)):
                raise ValueError('cannot reshape array of that size')
        src_shape = self.shape
        fn = self.fn

        def g(*idx):
            flat = z3.IntVal(0)
            for d, i in zip(shape, idx):
                flat = flat * _z(d) + _z(i)
            # unravel on the source shape (row major)
            src = []
            rem = flat
            for d in reversed(src_shape[1:]):
                dz = _z(d)
                src.append(rem % dz)
                rem = rem / dz
            src.append(rem)
            return fn(*reversed(src))
        return IndexMap(shape, g)

    def __getitem__(self, k):
        if isinstance(k, tuple):
            out = self
            for kk in k:
                out = out[kk]
            return out
        if isinstance(k, slice):
            if k == slice(None):
                return self
            raise loader.HarnessError('record table: slice %r' % (k,))
        kz = _z(k)
        fn = self.fn
        if self.ndim == 1:
            return Cell(*fn(kz))
        return IndexMap(self.shape[1:], lambda *idx: fn(kz, *idx))


class Cell(object):
    def __init__(self, c, r):
        self.c, self.r = c, r


class _Lines(object):
    """the data part of the file split at newlines: n record lines followed
    by the concrete trailing pieces the writer leaves"""

    def __init__(self, n, v, trailing):
        self.n, self.v, self.trailing = n, v, list(trailing)

    def __symlen__(self):
        return self.n + len(self.trailing)

    def __getitem__(self, k):
        if k == -1:
            return self.trailing[-1] if self.trailing else _Record()
        raise loader.HarnessError('record table: line index %r' % (k,))

    def pop(self, k=-1):
        if k != -1 or not self.trailing:
            raise loader.HarnessError('record table: pop(%r)' % (k,))
        return self.trailing.pop()


class _Record(object):
    """a line of numbers: equal to no blank string"""

    def __eq__(self, o):
        return False

    def __hash__(self):
        return 7


class _Text(object):
    def __init__(self, n, v, trailing=('',)):
        self.n, self.v, self.trailing = n, v, list(trailing)

    def split(self, sep=None):
        if sep != '\n':
            raise loader.HarnessError('record table: split(%r)' % (sep,))
        return _Lines(self.n, self.v, self.trailing)

    def splitlines(self):
        return _Lines(self.n, self.v, [])

    def strip(self, *a):
        return _Text(self.n, self.v, [])

    rstrip = strip

    def encode(self, *a):
        return self

    def decode(self, *a):
        return self


def _join(sep, lines):
    if sep != '\n' or not isinstance(lines, _Lines):
        raise loader.HarnessError('record table: join')
    return _Text(lines.n, lines.v, lines.trailing)


def _genfromtxt(text, delimiter=None, dtype=float, unpack=False, ndmin=0,
                **kw):
    """numpy.genfromtxt on n lines of v numbers (v >= 2): shape (n, v),
    squeezed to (v,) for a single line unless ndmin=2; unpack transposes"""
    if kw:
        raise loader.HarnessError('record table: genfromtxt(%s)' %
                                  ','.join(kw))
    if not isinstance(text, _Text):
        raise loader.HarnessError('record table: genfromtxt input')
    if any(t.strip() == '' for t in text.trailing[:-1]):
        raise loader.HarnessError('record table: blank lines inside data')
    n, v = text.n, text.v
    ctx = symx.cur()
    if ndmin != 2 and ctx.branch(_z(n) == 1):
        return IndexMap((v,), lambda j: (j, z3.IntVal(0)))
    out = IndexMap((n, v), lambda i, j: (j, i))
    return out.T if unpack else out


class _JoinRewrite(ast.NodeTransformer):
    def visit_Call(self, node):
        self.generic_visit(node)
        f = node.func
        if isinstance(f, ast.Attribute) and f.attr == 'join' and \
                isinstance(f.value, ast.Constant) and f.value.value == '\n':
            return ast.copy_location(ast.Call(
                func=ast.Name(id='_join', ctx=ast.Load()),
                args=[f.value] + node.args, keywords=[]), node)
        return node


def _has_call(st, attr):
    return any(isinstance(n, ast.Call) and (
        (isinstance(n.func, ast.Attribute) and n.func.attr == attr) or
        (isinstance(n.func, ast.Name) and n.func.id == attr))
        for n in ast.walk(st))


class RecordTable(Obligation):
    encoding_fragile = True

    def __init__(self, v):
        self.v = v
        self.name = 'record-table[variables=%d,n symbolic]' % v
        self.bounds = {'variables (incl. the independent one)': v,
                       'records n': '1..%d' % self.NMAX,
                       'cell': 'any (variable c, record r)'}

    NMAX = 10 ** 6
    mode = 'int'
    validate_paths = 3
    stubs = ('numpy.genfromtxt: shape contract on n lines of v numbers '
             '(squeeze of a single line, unpack, ndmin)',
             'reshape/swapaxes/T/ravel/array: index maps (row-major)',
             'the file text: n record lines + the trailing pieces the '
             'writer leaves; StringIO/encode are identities')

    def fallback_inputs(self):
        return [{'n': 1, 'c': 1, 'r': 0}, {'n': 2, 'c': self.v - 1, 'r': 1},
                {'n': 3, 'c': 0, 'r': 2}]

    def _prep(self):
        sp = loader.TwinSpace()
        R = sp.twin(MOD)
        rnode, path = loader.get_function_ast(MOD, 'ffi1001.__init__')
        body = rnode.body
        i0 = [i for i, st in enumerate(body) if _has_call(st, 'read') and
              isinstance(st, ast.Assign)]
        i1 = [i for i, st in enumerate(body) if isinstance(st, ast.For) and
              _has_call(st, 'PseudoNetCDFVariable')]
        if not i0 or not i1 or i1[0] <= i0[-1]:
            raise loader.HarnessError('ffi1001.__init__: data section not '
                                      'found')
        rstm = body[i0[-1]:i1[0]]
        loop = body[i1[0]]
        # dat = <table>[vi]: the per-variable column
        col = None
        tgt = loop.target
        ivar = tgt.elts[0].id if isinstance(tgt, ast.Tuple) else None
        for st in loop.body:
            if isinstance(st, ast.Assign) and isinstance(
                    st.value, ast.Subscript) and isinstance(
                    st.value.slice, ast.Name) and st.value.slice.id == ivar \
                    and isinstance(st.value.value, ast.Name) and \
                    st.value.value.id not in ('scales', 'missing', 'units',
                                              'llod_flags', 'llod_values',
                                              'ulod_flags', 'ulod_values'):
                col = st.value
        if col is None or ivar is None:
            raise loader.HarnessError('ffi1001.__init__: column selection '
                                      'not found')
        wnode, _ = loader.get_function_ast(MOD, 'ncf2ffi1001')
        wloop = [st for st in wnode.body if isinstance(st, ast.For) and
                 _has_call(st, 'tofile')]
        if len(wloop) != 1 or not isinstance(wloop[0].target, ast.Name):
            raise loader.HarnessError('ncf2ffi1001: row loop not found')
        wloop = wloop[0]
        # per row: one tofile of the row and one line end
        calls = [n for st in wloop.body for n in ast.walk(st)
                 if isinstance(n, ast.Call)]
        tof = [c for c in calls if isinstance(c.func, ast.Attribute) and
               c.func.attr == 'tofile']
        if len(tof) != 1 or not isinstance(tof[0].func.value, ast.Name) or \
                tof[0].func.value.id != wloop.target.id:
            raise loader.HarnessError('ncf2ffi1001: row writing not '
                                      'understood')

        def code(node, mode):
            if mode == 'exec':
                node = [_JoinRewrite().visit(loader._Rewrite().visit(x))
                        for x in node]
                top = ast.Module(body=node, type_ignores=[])
            else:
                node = _JoinRewrite().visit(loader._Rewrite().visit(node))
                top = ast.Expression(body=node)
            ast.fix_missing_locations(top)
            return compile(top, path + ':<records>', mode)
        import copy
        import hashlib
        stm = [ast.unparse(s) for s in rstm] + [ast.unparse(col),
                                                ast.unparse(wloop)]
        self._info = {'file': 'src/PseudoNetCDF/icarttfiles/ffi1001.py',
                      'qualname': 'ffi1001.__init__ data section + '
                                  'ncf2ffi1001 row loop',
                      'statements': stm,
                      'sha256': hashlib.sha256('\n'.join(stm).encode())
                      .hexdigest()[:16]}
        return (sp, R, code(copy.deepcopy(rstm), 'exec'),
                code(copy.deepcopy(col), 'eval'),
                code(copy.deepcopy(wloop.iter), 'eval'))

    def sym(self, ctx, h):
        sp, R, rcode, colcode, itercode = self._prep()
        self._space = None
        v = self.v
        n = ctx.int('n', 1, self.NMAX)
        c = ctx.int('c', 0, v - 1)
        r = ctx.int('r', 0, self.NMAX)
        ctx.assume(r.e < n.e, check=False)
        b = dict(sp.builtins)
        b['len'] = _symlen_any
        env0 = dict(R.__dict__)
        env0['__builtins__'] = b
        env0['_join'] = _join

        def stack(lst, *a, **k):
            lst = list(lst)
            inner = lst[0].shape

            def g(i, *idx):
                cs, rs = zip(*[m.fn(*idx) for m in lst])
                oc, orr = cs[-1], rs[-1]
                for k_ in range(len(lst) - 2, -1, -1):
                    oc = z3.If(i == k_, cs[k_], oc)
                    orr = z3.If(i == k_, rs[k_], orr)
                return oc, orr
            return IndexMap((len(lst),) + tuple(inner), g)
        # ---- writer: what is on text line i, column j
        vals = [IndexMap((n,), (lambda k_: (lambda i: (z3.IntVal(k_), i)))(k))
                for k in range(v)]
        try:
            rows = eval(itercode, dict(env0, vals=vals, array=stack,
                                       asarray=stack))
        except loader.HarnessError:
            raise
        except Exception as ex:
            raise loader.HarnessError('writer row expression: %r' % (ex,))
        if not isinstance(rows, IndexMap) or rows.ndim != 2:
            raise loader.HarnessError('writer rows are not a 2-D table')
        h.claim('writer:one-line-per-record',
                symx._b(_z(rows.shape[0]) == n.e))
        h.claim('writer:one-column-per-variable',
                symx._b(_z(rows.shape[1]) == v))
        wc, wr = rows.fn(r.e, c.e)
        h.claim('writer:cell', z3.And(wc == c.e, wr == r.e))
        # ---- reader: where text cell (line i, column j) ends up
        me = type('S', (), {})()
        dims = {}
        me.createDimension = lambda k_, n_, *a: dims.__setitem__(k_, n_)
        fstub = type('F', (), {'read': lambda s: _Text(n, v)})()
        env = dict(env0, self=me, f=fstub, genfromtxt=_genfromtxt,
                   StringIO=lambda x: x, BytesIO=lambda x: x,
                   variables=['v%d' % i for i in range(v)],
                   delim=', ')
        try:
            exec(rcode, env)
            colv = eval(colcode, dict(env, **{self._ivar(colcode): c}))
        except ValueError as ex:
            h.claim('reader:reads', False)
            h.observe('raised', True)
            return
        except loader.HarnessError:
            raise
        except Exception as ex:
            raise loader.HarnessError('reader data section: %r' % (ex,))
        if isinstance(colv, Cell) or (isinstance(colv, IndexMap) and
                                      colv.ndim != 1):
            # a 0-d or 2-d column cannot fill a ('POINTS',) variable
            h.claim('reader:column-is-1-D', False)
            h.observe('raised', True)
            return
        if not isinstance(colv, IndexMap):
            raise loader.HarnessError('reader column is not an array')
        h.claim('reader:record-count', symx._b(_z(colv.shape[0]) == n.e))
        if 'POINTS' in dims:
            h.claim('reader:POINTS', symx._b(_z(dims['POINTS']) == n.e))
        cell = colv[r]
        h.claim('reader:cell', z3.And(cell.c == c.e, cell.r == r.e))
        h.observe('raised', False)

    @staticmethod
    def _ivar(code):
        names = [nm for nm in code.co_names if nm not in ('data',)]
        return names[-1] if names else 'vi'

    def real(self, inputs):
        import warnings
        v = self.v
        n = max(1, min(int(frac_of(inputs.get('n', 2))), 6))
        viol = {}
        tmp = tempfile.mkdtemp(prefix='verif_c19_')
        path = os.path.join(tmp, 'r.ict')
        try:
            with warnings.catch_warnings():
                warnings.simplefilter('ignore')
                from PseudoNetCDF import PseudoNetCDFFile
                from PseudoNetCDF.icarttfiles.ffi1001 import ffi1001, \
                    ncf2ffi1001
                f = PseudoNetCDFFile()
                f.createDimension('POINTS', n)
                t = f.createVariable('Start_UTC', 'd', ('POINTS',))
                t[:] = [60. * i for i in range(n)]
                t.units = 's'
                want = {'Start_UTC': [60. * i for i in range(n)]}
                for k in range(1, v):
                    x = f.createVariable('V%d_ppb' % k, 'd', ('POINTS',))
                    want['V%d_ppb' % k] = [100. * k + i + 0.5
                                           for i in range(n)]
                    x[:] = want['V%d_ppb' % k]
                    x.units = 'ppb'
                    x.missing_value = -9999
                f.SDATE = '2004, 01, 10,'
                f.WDATE = '2004, 01, 11'
                f.INDEPENDENT_VARIABLE = 'Start_UTC'
                try:
                    ncf2ffi1001(f, path).close()
                    lines = open(path).read().split('\n')
                    nh = int(lines[0].split(',')[0])
                    recs = [ln for ln in lines[nh:] if ln.strip()]
                    if len(recs) != n:
                        viol['writer:one-line-per-record'] = \
                            '%d records written as %d lines' % (n, len(recs))
                    elif any(len(ln.split(',')) != v for ln in recs):
                        viol['writer:one-column-per-variable'] = recs[0]
                    g = ffi1001(path)
                    if len(g.dimensions['POINTS']) != n:
                        viol['reader:POINTS'] = '%d records read as %d' % (
                            n, len(g.dimensions['POINTS']))
                    for k_, w in want.items():
                        got = np.ma.filled(g.variables[k_][:], np.nan)
                        if got.shape != (n,) or not np.allclose(
                                got, w, rtol=1e-6, atol=0):
                            viol['reader:cell'] = '%s: wrote %r read %r' % (
                                k_, w, got.tolist())
                            break
                except Exception as ex:
                    viol['reader:reads'] = repr(ex)[:200]
        finally:
            for fn in os.listdir(tmp):
                os.remove(os.path.join(tmp, fn))
            os.rmdir(tmp)
        return {'obs': {'raised': 'reader:reads' in viol},
                'violations': viol, 'n': n, 'v': v}

    any_violation_confirms = True


def _symlen_any(x):
    if hasattr(x, '__symlen__'):
        return x.__symlen__()
    if isinstance(x, LenStub):
        return x.n
    return len(x)


# ---------------------------------------------------------------------------
# L4: auto-detection -- the text reader that is asked before ffi1001 and
# looks at line positions (noaafiles l100) must not claim the writer's output
# ---------------------------------------------------------------------------
class _IctLine(str):
    """a line of an ICARTT file the writer produced: never starts with the
    sounding format's 'Level', carries none of its column names"""

    def __new__(cls):
        return str.__new__(cls, '1, 1\n')


class _SymFile(object):
    def __init__(self, nlines):
        self.nlines, self.pos = nlines, 0

    def readline(self):
        ctx = symx.cur()
        i = self.pos
        self.pos += 1
        if ctx.branch(z3.IntVal(i) < self.nlines.e):
            return _IctLine()
        return ''

    def close(self):
        pass

    def __enter__(self):
        return self

    def __exit__(self, *a):
        return False


class AutoDetect(Obligation):
    encoding_fragile = True
    name = 'autodetect[l100.isMine on L lines]'
    LMAX = 400
    bounds = {'lines in the file L': '17..%d (1 dependent variable, no '
              'attributes, one record is the shortest output)' % 400}
    mode = 'int'
    validate_paths = 4
    max_paths = 400
    stubs = ('open(): a text file of L lines none of which starts with '
             "'Level' (the writer's header and data lines)",)

    def fallback_inputs(self):
        return [{'L': 17}, {'L': 27}, {'L': 28}, {'L': 60}]

    def sym(self, ctx, h):
        sp = loader.TwinSpace()
        L = ctx.int('L', 17, self.LMAX)
        sp.builtins['open'] = lambda *a, **k: _SymFile(L)
        M = sp.twin('PseudoNetCDF.noaafiles._l100')
        self._space = sp
        got = M.l100.isMine('x.ict')
        if isinstance(got, symx.SymBool):
            got = bool(got)
        h.observe('l100_claims', bool(got))
        h.claim('not-claimed-by-l100', not got)

    def real(self, inputs):
        import warnings
        L = max(17, min(int(frac_of(inputs.get('L', 17))), 400))
        # L = 15 + d + a header lines + n records, d = 1
        a = 0
        n = L - 16
        if n > 40:
            a = min(n - 40, 100)
            n = L - 16 - a
        viol = {}
        tmp = tempfile.mkdtemp(prefix='verif_c19_')
        path = os.path.join(tmp, 'a.ict')
        claims = None
        try:
            with warnings.catch_warnings():
                warnings.simplefilter('ignore')
                from PseudoNetCDF import PseudoNetCDFFile, pncopen
                from PseudoNetCDF.icarttfiles.ffi1001 import ffi1001, \
                    ncf2ffi1001
                from PseudoNetCDF.noaafiles import l100
                f = PseudoNetCDFFile()
                f.createDimension('POINTS', n)
                t = f.createVariable('Start_UTC', 'd', ('POINTS',))
                t[:] = [60. * i for i in range(n)]
                t.units = 's'
                x = f.createVariable('X_ppb', 'd', ('POINTS',))
                x[:] = [0.5 + i for i in range(n)]
                x.units = 'ppb'
                x.missing_value = -9999
                f.SDATE = '2004, 01, 10,'
                f.WDATE = '2004, 01, 11'
                f.INDEPENDENT_VARIABLE = 'Start_UTC'
                for i in range(a):
                    setattr(f, 'ATTR%d' % i, 'value %d' % i)
                ncf2ffi1001(f, path).close()
                nl = len(open(path).read().rstrip('\n').split('\n'))
                if nl != L:
                    return {'obs': None, 'violations': {},
                            'note': 'file has %d lines' % nl}
                claims = bool(l100.isMine(path))
                try:
                    g = pncopen(path)
                    if not isinstance(g, ffi1001):
                        viol['not-claimed-by-l100'] = \
                            '%d-line output opened as %s' % (
                                L, type(g).__name__)
                    elif g.variables['X_ppb'].shape != (n,):
                        viol['not-claimed-by-l100'] = 'shape'
                except Exception as ex:
                    viol['not-claimed-by-l100'] = \
                        '%d-line output: auto-detected open raised %s' % (
                            L, repr(ex)[:160])
        finally:
            for fn in os.listdir(tmp):
                os.remove(os.path.join(tmp, fn))
            os.rmdir(tmp)
        return {'obs': {'l100_claims': claims}, 'violations': viol, 'L': L}

    any_violation_confirms = True


# ---------------------------------------------------------------------------
# L5: the reader's mask rule -- a cell is masked iff it holds the missing code
# ---------------------------------------------------------------------------
class MaskRule(Obligation):
    encoding_fragile = True
    name = 'reader-mask-rule[x = m + d/100]'
    alt_models = 6
    bounds = {'missing code m': 'integer, 1 <= |m| <= 99999',
              'cell value x': 'm + d/100, |d| <= 10**6 (at most 7 '
              'significant digits: survives the %.6e data format exactly)'}
    mode = 'int'
    validate_paths = 3
    stubs = ('the per-variable loop body of ffi1001.__init__ up to the '
             'variable creation, run on a one-cell column',)

    def fallback_inputs(self):
        return [{'m': -9999, 'd': 0}, {'m': -9999, 'd': -5},
                {'m': -9999, 'd': 5}, {'m': 99999, 'd': 1}]

    def _prep(self):
        sp = loader.TwinSpace()
        R = sp.twin(MOD)
        rnode, path = loader.get_function_ast(MOD, 'ffi1001.__init__')
        loops = [st for st in rnode.body if isinstance(st, ast.For) and
                 _has_call(st, 'PseudoNetCDFVariable')]
        if len(loops) != 1:
            raise loader.HarnessError('ffi1001.__init__: variable loop not '
                                      'found')
        loop = loops[0]
        body = []
        target = None
        for st in loop.body:
            if _has_call(st, 'PseudoNetCDFVariable'):
                # values=<name> handed to the variable
                for n in ast.walk(st):
                    if isinstance(n, ast.Call) and (
                            (isinstance(n.func, ast.Name) and
                             n.func.id == 'PseudoNetCDFVariable')):
                        for kw in n.keywords:
                            if kw.arg == 'values':
                                target = kw.value
                break
            body.append(st)
        if target is None:
            raise loader.HarnessError('ffi1001.__init__: values= of the '
                                      'variable not found')
        import copy
        import hashlib
        stm = [ast.unparse(x) for x in body] + [ast.unparse(target)]
        self._info = {'file': 'src/PseudoNetCDF/icarttfiles/ffi1001.py',
                      'qualname': 'ffi1001.__init__ per-variable loop body',
                      'statements': stm,
                      'sha256': hashlib.sha256('\n'.join(stm).encode())
                      .hexdigest()[:16]}
        mod = ast.Module(body=[loader._Rewrite().visit(copy.deepcopy(x))
                               for x in body], type_ignores=[])
        ast.fix_missing_locations(mod)
        ex = ast.Expression(body=loader._Rewrite().visit(
            copy.deepcopy(target)))
        ast.fix_missing_locations(ex)
        names = [t.id for t in (loop.target.elts if isinstance(
            loop.target, ast.Tuple) else [loop.target])]
        return (sp, R, compile(mod, path + ':<maskrule>', 'exec'),
                compile(ex, path + ':<values>', 'eval'), names)

    def sym(self, ctx, h):
        sp, R, code, vcode, names = self._prep()
        self._space = sp
        m = ctx.int('m', -99999, 99999)
        ctx.assume(m.e != 0, check=False)
        d = ctx.int('d', -10 ** 6, 10 ** 6)
        x = symx.SymReal(z3.ToReal(m.e) + z3.ToReal(d.e) / 100)
        col = sp.np.empty((1,), dtype=object)
        col[0] = x
        env = dict(R.__dict__)
        env['__builtins__'] = sp.builtins
        one = lambda v: [v]
        env.update(scales=one(1.), missing=one(m), units=one('ppb'),
                   data=one(col), llod_flags=one(-8888),
                   llod_values=one('N/A'), ulod_flags=one(-7777),
                   ulod_values=one('N/A'),
                   self=type('S', (), {'variables': {}})())
        env[names[0]] = 0
        if len(names) > 1:
            env[names[1]] = 'X_ppb'
        try:
            exec(code, env)
            vals = eval(vcode, env)
        except Exception as ex:
            raise loader.HarnessError('loop body: %r' % (ex,))
        import numpy as real_np
        mk = real_np.ma.getmaskarray(vals).reshape(-1)
        if mk.dtype == object:
            mexpr = symx._b(mk[0])
        else:
            mexpr = z3.BoolVal(bool(mk[0]))
        h.claim('masked-iff-code', mexpr == (d.e == 0))
        h.observe('masked', bool(mk[0]) if mk.dtype != object else None)

    def real(self, inputs):
        import warnings
        m = int(frac_of(inputs.get('m', -9999)))
        d = int(frac_of(inputs.get('d', 0)))
        if m == 0 or abs(m) > 99999:
            m = -9999
        x = m + d / 100.
        viol = {}
        tmp = tempfile.mkdtemp(prefix='verif_c19_')
        path = os.path.join(tmp, 'k.ict')
        got = None
        try:
            with warnings.catch_warnings():
                warnings.simplefilter('ignore')
                from PseudoNetCDF import PseudoNetCDFFile
                from PseudoNetCDF.icarttfiles.ffi1001 import ffi1001, \
                    ncf2ffi1001
                f = PseudoNetCDFFile()
                f.createDimension('POINTS', 3)
                t = f.createVariable('Start_UTC', 'd', ('POINTS',))
                t[:] = [0., 60., 120.]
                t.units = 's'
                v = f.createVariable('X_ppb', 'd', ('POINTS',),
                                     fill_value=m)
                v[:] = np.ma.MaskedArray([1.5, x, float(m)],
                                         mask=[False, d == 0, True])
                v.units = 'ppb'
                v.missing_value = m
                f.SDATE = '2004, 01, 10,'
                f.WDATE = '2004, 01, 11'
                f.INDEPENDENT_VARIABLE = 'Start_UTC'
                try:
                    ncf2ffi1001(f, path).close()
                    g = ffi1001(path)
                    got = np.ma.getmaskarray(g.variables['X_ppb'][:]).tolist()
                    if got != [False, d == 0, True]:
                        viol['masked-iff-code'] = 'code %d, cell %r: mask ' \
                            'read back %r' % (m, x, got)
                except Exception as ex:
                    viol['masked-iff-code:raised'] = repr(ex)[:200]
        finally:
            for fn in os.listdir(tmp):
                os.remove(os.path.join(tmp, fn))
            os.rmdir(tmp)
        return {'obs': {'masked': None if got is None else got[1]},
                'violations': viol, 'm': m, 'x': x}

    any_violation_confirms = True


def obligations(tier):
    vs = (2, 3) if tier == 'quick' else (2, 3, 4, 6)
    return [Layout(), MissingCode()] + [RecordTable(v) for v in vs] + [AutoDetect(), MaskRule()]


def region_over7(inputs):
    """known-finding region: codes that do not fit 7 significant digits"""
    m = inputs['m']
    return _round_sig(m, 7) != m
