"""C19 -- ICARTT (ffi1001) write/read round trip: header layout and missing
codes.

L1 (layout): the reader's line classifier (the if/elif chain on the line
number in ffi1001.__init__, AST-extracted) is evaluated symbolically for a
header with d dependent variables and a user-comment attributes and compared
with the layout the writer emits (its declared line count is AST-extracted from
ncf2ffi1001; its concrete header is recorded for small d, a and must match the
general form).
L2 (missing codes): the writer's header text of a missing code (str / %g / ...)
and its data text (%.6e) are AST-extracted and modelled as decimal roundings;
for a symbolic integer code both must parse to the same number, otherwise the
reader's mask (dat == miss) is lost."""
import ast
import io
import os
import tempfile

import numpy as np
import z3

from verifx import symx, loader
from verifx.harness import Obligation
from verifx.symx import frac_of
from . import common

PROPERTY = 'C19'
LEVEL = 'model_checking'
ASSUMPTIONS = [
    'printf/str formatting of numbers is modelled as correctly rounded '
    'decimal rounding to the format\'s significant digits (str/repr exact, '
    '%g 6, %.Ne N+1 digits); reading text back is exact',
    'attribute values are single-line strings (an attribute containing a '
    'newline makes the declared header count wrong: see DESIGN)',
    'data values, record counts and the array reshaping of the reader '
    '(numpy.genfromtxt) are outside; names/units string handling is outside',
    'missing codes: integers with |m| < 10**9; round trip claimed for '
    'codes of at most 7 significant digits (the format\'s precision)',
]

MANIFEST = {
    'category': 'model_checking',
    'technique': 'AST-extracted line classifier of the real reader and '
                 'AST-extracted count/format expressions of the real writer '
                 'evaluated on symbolic counts and codes; SMT validity; '
                 'replay by writing and re-reading a real file',
    'text': 'Bounded symbolic checking of two kernels of the ICARTT round '
            'trip: (L1) for ANY number of dependent variables d >= 1 and '
            'header attributes a >= 0 the reader interprets every header '
            'line as the item the writer put there and the declared header '
            'line count equals the lines emitted; (L2) for every integer '
            'missing code of at most 7 significant digits the code declared '
            'in the header equals the value written into masked cells, so '
            'the mask survives.',
    'note': 'Trusted: z3, the decimal-rounding model of printf. Data values '
            'and record handling are outside (not claimed).',
}

MOD = 'PseudoNetCDF.icarttfiles.ffi1001'


class LenStub(object):
    def __init__(self, n):
        self.n = n

    def __symlen__(self):
        return self.n


def _symlen(x):
    if isinstance(x, LenStub):
        return x.n
    return len(x)


def _find_chain():
    """the if/elif chain `if li == PI_LINE: ... elif ...` of the reader"""
    node, path = loader.get_function_ast(MOD, 'ffi1001.__init__')
    for n in ast.walk(node):
        if isinstance(n, ast.If) and isinstance(n.test, ast.Compare) and \
                isinstance(n.test.left, ast.Name) and n.test.left.id == 'li' \
                and any(isinstance(c, ast.Name) and c.id == 'PI_LINE'
                        for c in n.test.comparators):
            chain = []
            cur = n
            while True:
                chain.append((cur.test, cur.body))
                if len(cur.orelse) == 1 and isinstance(cur.orelse[0], ast.If):
                    cur = cur.orelse[0]
                else:
                    break
            return chain, path
    raise loader.HarnessError('ffi1001.__init__: line classifier not found')


def _kind(body):
    """classify a branch by what it assigns"""
    names = set()
    for st in body:
        for n in ast.walk(st):
            if isinstance(n, ast.Name) and isinstance(n.ctx, ast.Store):
                names.add(n.id)
            if isinstance(n, ast.Attribute) and isinstance(n.ctx, ast.Store):
                names.add('self.' + n.attr)
            if isinstance(n, ast.Call) and isinstance(n.func, ast.Attribute) \
                    and n.func.attr == 'append' and \
                    isinstance(n.func.value, ast.Name):
                names.add(n.func.value.id + '.append')
            if isinstance(n, ast.Call) and isinstance(n.func, ast.Name) \
                    and n.func.id == 'setattr':
                names.add('setattr')
    for key, k in (('self.PI_NAME', 'pi'), ('self.ORGANIZATION_NAME', 'org'),
                   ('self.SOURCE_DESCRIPTION', 'source'),
                   ('self.MISSION_NAME', 'mission'),
                   ('self.VOLUME_INFO', 'volume'), ('self.SDATE', 'date'),
                   ('self.TIME_INTERVAL', 'interval'),
                   ('self.INDEPENDENT_VARIABLE', 'indep'),
                   ('scales', 'scales'), ('missing', 'missing'),
                   ('n_special_comments', 'nspecial'),
                   ('variables', 'names')):
        if key in names:
            return k
    if 'units.append' in names:
        return 'varline'
    if 'setattr' in names and 'colon_pos' in names and 'v' in names:
        return 'comment'
    if names == {'lastattr'}:
        return 'usercount'
    return 'other:' + ','.join(sorted(names))


class Layout(Obligation):
    encoding_fragile = True          # AST extraction from ffi1001/ncf2ffi1001

    def fallback_inputs(self):
        return [{}, {'d': 1, 'a': 0}, {'d': 3, 'a': 2}, {'d': 12, 'a': 7}]
    mode = 'int'
    validate_paths = 4
    name = 'header-layout[d,a unbounded]'
    bounds = {'dependent variables d': '>= 1 unbounded',
              'attributes a': '>= 0 unbounded'}
    stubs = ('len() of the missing list (symbolic count)',)

    def _prep(self):
        sp = loader.TwinSpace()
        R = sp.twin(MOD)
        chain, path = _find_chain()
        tests = []
        for test, body in chain:
            e = ast.Expression(body=loader._Rewrite().visit(test))
            ast.fix_missing_locations(e)
            tests.append((compile(e, path + ':<test>', 'eval'),
                          _kind(body), ast.unparse(test)))
        # layout parameters assigned just before the chain
        wanted = ['LAST_VAR_DESC_LINE', 'SPECIAL_COMMENT_COUNT_LINE',
                  'LAST_SPECIAL_COMMENT_LINE', 'USER_COMMENT_COUNT_LINE']
        params = loader.find_assign_values(MOD, 'ffi1001.__init__', wanted)
        count = loader.find_assign_values(MOD, 'ncf2ffi1001',
                                          ['myattrs', 'depvarkeys'])
        node, _ = loader.get_function_ast(MOD, 'ncf2ffi1001')
        decl = None
        for n in ast.walk(node):
            if isinstance(n, ast.Call) and isinstance(n.func, ast.Name) and \
                    n.func.id == 'print' and n.args and \
                    isinstance(n.args[0], ast.BinOp) and \
                    isinstance(n.args[0].left, ast.Constant) and \
                    n.args[0].left.value == '%d, %d':
                decl = n.args[0].right.elts[0]
        if decl is None:
            raise loader.HarnessError('ncf2ffi1001: header count print not '
                                      'found')
        de = ast.Expression(body=loader._Rewrite().visit(decl))
        ast.fix_missing_locations(de)
        self._info = {'file': 'src/PseudoNetCDF/icarttfiles/ffi1001.py',
                      'qualname': 'ffi1001.__init__ line classifier + '
                                  'ncf2ffi1001 header count',
                      'statements': [t[2] for t in tests] +
                      [ast.unparse(decl)], 'sha256': ''}
        import hashlib
        self._info['sha256'] = hashlib.sha256('\n'.join(
            self._info['statements']).encode()).hexdigest()[:16]
        return sp, R, tests, params, compile(de, 'decl', 'eval')

    def sym(self, ctx, h):
        sp, R, tests, params, declcode = self._prep()
        self._space = None
        d = ctx.int('d', 1, 10 ** 6)
        a = ctx.int('a', 0, 10 ** 6)
        li = ctx.int('li', 2, 3 * 10 ** 6)
        b = dict(sp.builtins)
        b['len'] = _symlen
        env0 = dict(R.__dict__)
        env0['__builtins__'] = b
        # declared header line count of the writer
        declared = eval(declcode, dict(env0, myattrs=LenStub(a),
                                       depvarkeys=LenStub(d)))
        h.claim('declared-count', symx._b(declared == 15 + d + a))
        n = 15 + d + a
        ctx.assume(li.e <= symx._num(n)[1], check=False)
        # state of the reader when it looks at line li
        lenmissing = symx.SymInt(z3.If(li.e > 12, d.e, 0))
        me = type('S', (), {})()
        me.n_header_lines = declared
        env = dict(env0, li=li, missing=LenStub(lenmissing),
                   n_special_comments=0, self=me)
        for k in ('LAST_VAR_DESC_LINE', 'SPECIAL_COMMENT_COUNT_LINE',
                  'LAST_SPECIAL_COMMENT_LINE', 'USER_COMMENT_COUNT_LINE'):
            env[k] = eval(params[k][0], env)
        # which branch fires (first true test), as a z3 term
        kinds = [t[1] for t in tests]
        idx = z3.IntVal(len(tests))
        for i in range(len(tests) - 1, -1, -1):
            c = eval(tests[i][0], env)
            ce = c.e if isinstance(c, symx.SymBool) else z3.BoolVal(bool(c))
            idx = z3.If(ce, i, idx)

        def fires(kind):
            ks = [i for i, k in enumerate(kinds) if k == kind]
            return z3.Or(*[idx == i for i in ks]) if ks else z3.BoolVal(False)
        # the writer's general layout
        L = li.e
        de, ae = d.e, a.e
        exp = [('pi', L == 2), ('org', L == 3), ('source', L == 4),
               ('mission', L == 5), ('volume', L == 6), ('date', L == 7),
               ('interval', L == 8), ('indep', L == 9),
               ('scales', L == 11), ('missing', L == 12),
               ('varline', z3.And(L >= 13, L <= 12 + de)),
               ('nspecial', L == 13 + de),
               ('usercount', L == 14 + de),
               ('comment', z3.And(L >= 15 + de, L <= 14 + de + ae)),
               ('names', L == 15 + de + ae)]
        for kind, where in exp:
            h.claim('line-kind:' + kind, z3.Implies(where, fires(kind)))
        h.claim('line-10-unclassified', z3.Implies(
            L == 10, idx == len(tests)))
        h.observe('ok', True)

    def real(self, inputs):
        """write and re-read a real file with d variables and a attributes"""
        import warnings
        d = max(1, min(int(frac_of(inputs.get('d', 2))), 4))
        a = max(0, min(int(frac_of(inputs.get('a', 1))), 4))
        viol = {}
        tmp = tempfile.mkdtemp(prefix='verif_c19_')
        path = os.path.join(tmp, 'x.ict')
        try:
            with warnings.catch_warnings():
                warnings.simplefilter('ignore')
                from PseudoNetCDF import PseudoNetCDFFile
                from PseudoNetCDF.icarttfiles.ffi1001 import ffi1001, \
                    ncf2ffi1001
                f = PseudoNetCDFFile()
                f.createDimension('POINTS', 3)
                t = f.createVariable('Start_UTC', 'd', ('POINTS',))
                t[:] = [0., 60., 120.]
                t.units = 's'
                names = ['V%d_ppb' % i for i in range(d)]
                for i, n_ in enumerate(names):
                    v = f.createVariable(n_, 'd', ('POINTS',))
                    v[:] = [1.5 + i, 2.5, 3.25]
                    v.units = 'ppb'
                    v.missing_value = -9999
                f.SDATE = '2004, 01, 10,'
                f.WDATE = '2004, 01, 11'
                f.INDEPENDENT_VARIABLE = 'Start_UTC'
                for i in range(a):
                    setattr(f, 'ATTR%d' % i, 'value %d' % i)
                try:
                    ncf2ffi1001(f, path).close()
                    g = ffi1001(path)
                    got = [k for k in g.variables if k != 'Start_UTC']
                    if got != names:
                        viol['line-kind:names'] = 'names %r read as %r' % (
                            names, got)
                    lines = open(path).read().split('\n')
                    if int(lines[0].split(',')[0]) != 15 + d + a:
                        viol['declared-count'] = lines[0]
                    for i in range(a):
                        if getattr(g, 'ATTR%d' % i, None) != 'value %d' % i:
                            viol['line-kind:comment'] = 'attribute lost'
                except Exception as ex:
                    viol['line-kind:raised'] = repr(ex)[:200]
        finally:
            for fn in os.listdir(tmp):
                os.remove(os.path.join(tmp, fn))
            os.rmdir(tmp)
        return {'obs': {'ok': True}, 'violations': viol, 'd': d, 'a': a}

    any_violation_confirms = True


def _round_sig(m, k):
    """z3: integer m rounded half-even to k significant decimal digits
    (|m| < 10**9)"""
    a = z3.If(m >= 0, m, -m)
    out = a
    for D in range(9, k, -1):           # D digits -> drop D-k digits
        q = 10 ** (D - k)
        lo = 10 ** (D - 1)
        f = a / q
        r = a % q
        two = 2 * r
        rounded = z3.If(two < q, f, z3.If(two > q, f + 1,
                                          z3.If(f % 2 == 0, f, f + 1))) * q
        out = z3.If(a >= lo, rounded, out) if D == 9 else \
            z3.If(z3.And(a >= lo, a < lo * 10), rounded, out)
    return z3.If(m >= 0, out, -out)


def _sig_digits(fmt):
    """significant digits kept by a printf-style format, None = exact"""
    import re
    if fmt in ('str', 'repr', '%d', '%i', '%s', '%r'):
        return None
    m = re.fullmatch(r'%\.(\d+)e', fmt)
    if m:
        return int(m.group(1)) + 1
    m = re.fullmatch(r'%\.(\d+)g', fmt)
    if m:
        return max(int(m.group(1)), 1)
    if fmt == '%g':
        return 6
    if fmt == '%e':
        return 7
    raise loader.HarnessError('unknown number format %r' % fmt)


class MissingCode(Obligation):
    encoding_fragile = True          # AST extraction of the writer formats

    def fallback_inputs(self):
        return [{}, {'m': -9999}, {'m': -8888888}, {'m': 9999999}]
    mode = 'int'
    validate_paths = 3
    name = 'missing-code-formats'
    bounds = {'code': 'integer, |m| < 10**9'}

    def _formats(self):
        node, path = loader.get_function_ast(MOD, 'ncf2ffi1001')
        data_fmt = hdr_fmt = None
        stm = []
        carriers = set()
        for n in ast.walk(node):
            if isinstance(n, ast.Assign) and len(n.targets) == 1 and \
                    isinstance(n.targets[0], ast.Name) and \
                    'missing_value' in ast.unparse(n.value):
                carriers.add(n.targets[0].id)
        for n in ast.walk(node):
            if isinstance(n, ast.Call) and isinstance(n.func, ast.Attribute) \
                    and n.func.attr == 'tofile':
                for kw in n.keywords:
                    if kw.arg == 'format' and isinstance(kw.value,
                                                         ast.Constant):
                        data_fmt = kw.value.value
                        stm.append(ast.unparse(n))
            # the header line: delim.join([<fmt>(getattr(..,'missing_value'
            # -- directly, or over a name bound to such a list
            if isinstance(n, ast.ListComp):
                src = ast.unparse(n)
                it = n.generators[0].iter
                derived = isinstance(it, ast.Name) and it.id in carriers
                e = n.elt
                formats = isinstance(e, ast.BinOp) or (
                    isinstance(e, ast.Call) and isinstance(e.func, ast.Name)
                    and e.func.id in ('str', 'repr'))
                if ('missing_value' in src or derived) and formats:
                    stm.append(src)
                    if isinstance(e, ast.Call) and isinstance(e.func,
                                                              ast.Name):
                        hdr_fmt = e.func.id
                    elif isinstance(e, ast.BinOp) and isinstance(
                            e.op, ast.Mod) and isinstance(e.left,
                                                          ast.Constant):
                        hdr_fmt = e.left.value
        if data_fmt is None or hdr_fmt is None:
            raise loader.HarnessError('ncf2ffi1001: formats not found')
        import hashlib
        self._info = {'file': 'src/PseudoNetCDF/icarttfiles/ffi1001.py',
                      'qualname': 'ncf2ffi1001 (number formats)',
                      'statements': stm,
                      'sha256': hashlib.sha256('\n'.join(stm).encode())
                      .hexdigest()[:16]}
        return hdr_fmt, data_fmt

    def sym(self, ctx, h):
        hdr_fmt, data_fmt = self._formats()
        self._space = None
        m = ctx.int('m', -(10 ** 9) + 1, 10 ** 9 - 1)
        kh, kd = _sig_digits(hdr_fmt), _sig_digits(data_fmt)
        hv = m.e if kh is None else _round_sig(m.e, kh)
        dv = m.e if kd is None else _round_sig(m.e, kd)
        h.observe('formats', [hdr_fmt, data_fmt])
        # codes the format can carry (<= 7 significant digits)
        fits = _round_sig(m.e, 7) == m.e
        h.claim('mask-survives:code-within-7-digits',
                z3.Implies(fits, hv == dv))
        h.claim('mask-survives:any-code', hv == dv)

    def real(self, inputs):
        import warnings
        m = int(frac_of(inputs.get('m', -9999)))
        viol = {}
        tmp = tempfile.mkdtemp(prefix='verif_c19_')
        path = os.path.join(tmp, 'm.ict')
        try:
            with warnings.catch_warnings():
                warnings.simplefilter('ignore')
                from PseudoNetCDF import PseudoNetCDFFile
                from PseudoNetCDF.icarttfiles.ffi1001 import ffi1001, \
                    ncf2ffi1001
                f = PseudoNetCDFFile()
                f.createDimension('POINTS', 3)
                t = f.createVariable('Start_UTC', 'd', ('POINTS',))
                t[:] = [0., 60., 120.]
                t.units = 's'
                v = f.createVariable('X_ppb', 'd', ('POINTS',),
                                     fill_value=m)
                v[:] = np.ma.masked_values([1.5, float(m), 3.25], float(m))
                v.units = 'ppb'
                v.missing_value = m
                f.SDATE = '2004, 01, 10,'
                f.WDATE = '2004, 01, 11'
                f.INDEPENDENT_VARIABLE = 'Start_UTC'
                try:
                    ncf2ffi1001(f, path).close()
                    g = ffi1001(path)
                    mask = np.ma.getmaskarray(g.variables['X_ppb'][:])
                    if mask.tolist() != [False, True, False]:
                        lab = 'mask-survives:code-within-7-digits' \
                            if len(str(abs(m)).rstrip('0')) <= 7 else \
                            'mask-survives:any-code'
                        viol[lab] = 'missing code %d: mask read back %r' % (
                            m, mask.tolist())
                except Exception as ex:
                    viol['mask-survives:raised'] = repr(ex)[:200]
        finally:
            for fn in os.listdir(tmp):
                os.remove(os.path.join(tmp, fn))
            os.rmdir(tmp)
        return {'obs': {}, 'violations': viol, 'code': m}


def obligations(tier):
    return [Layout(), MissingCode()]


def region_over7(inputs):
    """known-finding region: codes that do not fit 7 significant digits"""
    m = inputs['m']
    return _round_sig(m, 7) != m
