"""C20 -- ARL packed-bit packing error is bounded and unpack inverts pack.

Encoded: noaafiles/_arl.py pack2d and unpack (whole functions, twin), cells as
z3 Float32 values (bit precise, RNE), the packed integers as 32-bit
bit-vectors, np.log through the SymLog stub (exact table at powers of two and
their float predecessors, bracket elsewhere, slivers next to powers of two
assumed away)."""
import struct

import numpy as np
import z3

from verifx import symx, loader, shim
from verifx.harness import Obligation
from . import common

PROPERTY = 'C20'
OBLIGATION_WALL_S = {'quick': 600, 'thorough': 2700}
LEVEL = 'model_checking'
ASSUMPTIONS = [
    'bit-precise IEEE float32 (z3 FloatingPoint, round-nearest-even); '
    'float32 -> int32 casts truncate toward zero',
    'np.log(x)/np.log(2f) replaced by the SymLog stub: exact value (real '
    'numpy float32 log evaluated when the check starts) for x a power of two '
    'or the float just below one; strict bracket m < s < m+1 for x between '
    '2**m(1+2**-16) and 2**(m+1)(1-2**-16); the slivers in between are '
    'outside the claim',
    'field cells finite, |x| <= 1024; largest neighbour difference within '
    'the stated exponent band',
    'whole-file ARL reading/writing (np.memmap + np.char on structured '
    'dtypes) and level/variable lists are outside the symbolic claim; the '
    'reader\'s time axis is claimed on a slice (hours since the first record '
    'for symbolic offsets); a reference file written from the format '
    'description (checks/arlfile.py) is read back in the replay oracle '
    '(fields within one step, variable and level lists, times)',
]

QUICK_NOTE = ('quick tier: shape (1,2) only, without the per-cell error '
              'bound; shapes with 3-4 cells need 100+ s per claim')

MANIFEST = {
    'category': 'model_checking',
    'technique': 'symbolic execution of the real pack2d/unpack source on z3 '
                 'Float32 cells and 32-bit bit-vector bytes (QF_BVFP), one '
                 'path per scaling exponent; AST slice of the file reader\'s '
                 'time axis on symbolic instants; replay on the real '
                 'functions and on a reference ARL file',
    'text': 'Bounded bit-precise checking: for field shapes (1,2), (1,3), '
            '(2,2) quick and exponent band [-3,3] quick, over ALL finite '
            'float32 cells, every packed value lies in 0..255 (no byte '
            'wrap), unpack(pack(x))[0,0] == x[0,0] and the checksum equals '
            'the byte sum modulo 255 (quick and thorough); every cell is '
            'reconstructed within 2**(NEXP-7) (thorough tier only: 2-3 '
            'solver minutes per path and cell). The file reader\'s time '
            'axis (AST slice of arlpackedbit.__init__) gives the hours since '
            'the first record for ALL offsets 0 <= k1 <= k2 <= 17000 h; '
            'replay reads a reference file laid out from the format '
            'description.',
    'note': 'Trusted: z3 FP/BV theories, the SymLog stub (log2 near powers '
            'of two tabulated from the real numpy). Timeouts are reported '
            'as inconclusive.',
}


def _bits(v):
    """model value (pyval dict) -> python float"""
    if isinstance(v, dict) and 'fp_bits' in v:
        return struct.unpack('>f', struct.pack('>I', v['fp_bits']))[0]
    if isinstance(v, dict) and v.get('fp') == 'nan':
        return float('nan')
    if isinstance(v, dict) and 'fp' in v:
        return float(v['fp'])
    return float(v) if not isinstance(v, dict) else 0.0


class Pack(Obligation):
    mode = 'ieee'
    validate_paths = 3
    max_paths = 200
    timeout_ms = 120000
    stubs = ('numpy.log (SymLog table/bracket)',
             'np.zeros allocate object arrays')

    def __init__(self, shape, band, tmo=120000, xmax=1024.0, errb=True,
                 pinpow=False):
        self.shape, self.band = shape, band
        self.xmax, self.errb, self.pinpow = xmax, errb, pinpow
        self.timeout_ms = tmo
        self.name = 'pack[shape=%dx%d,band=%d..%d,|x|<=%g,errbound=%s%s]' % (
            shape + band + (xmax, errb, '' if not pinpow else (
                ',maxdiff just below 2**%d' % (band[0] + 1)
                if pinpow == 'below' else ',maxdiff=2**%d' % band[0])))
        self.bounds = {'shape': shape, 'exponent band': band,
                       '|x|': '<= %g' % xmax}
        self._space = None

    def space(self):
        if self._space is None:
            self._space = loader.TwinSpace(objfloat='all')
            self._space.twin('PseudoNetCDF.noaafiles._arl')
        return self._space

    def sym(self, ctx, h):
        shim.SymLog.BAND = self.band
        ctx.eager_fp = True
        ctx.int_float_sort = symx.F32   # pack2d/unpack are float32 code
        sp = self.space()
        arl = sp.twin('PseudoNetCDF.noaafiles._arl')
        n = self.shape[0] * self.shape[1]
        xs = [ctx.fp('x%d' % i, symx.F32) for i in range(n)]
        for x in xs:
            ctx.assume(z3.And(z3.Not(z3.fpIsNaN(x.e)),
                              z3.Not(z3.fpIsInf(x.e)),
                              z3.fpLEQ(z3.fpAbs(x.e),
                                       z3.FPVal(self.xmax, symx.F32))),
                       check=False)
        if self.pinpow:
            # largest neighbour difference exactly a power of two (row
            # fields): the boundary the exponent rule has to get right
            assert self.shape[0] == 1
            ds = [z3.fpAbs(z3.fpSub(symx.RNE, xs[i + 1].e, xs[i].e))
                  for i in range(n - 1)]
            mx = ds[0]
            for d in ds[1:]:
                mx = z3.If(z3.fpGT(d, mx), d, mx)
            if self.pinpow == 'below':
                # largest difference in the top 1/128 of its octave: where a
                # half-step carried from the previous cell can push a packed
                # difference out of the byte range
                hi = 2.0 ** (self.band[0] + 1)
                ctx.assume(z3.And(
                    z3.fpGEQ(mx, z3.FPVal(hi * 127.0 / 128.0, symx.F32)),
                    z3.fpLT(mx, z3.FPVal(hi, symx.F32))))
            else:
                ctx.assume(z3.fpEQ(mx, z3.FPVal(2.0 ** self.band[0],
                                                symx.F32)))
        a = np.empty(self.shape, dtype=object)
        for i, x in enumerate(xs):
            a.reshape(-1)[i] = x
        a = a.view(shim.SymNDArray)
        import sys
        sys.setprofile(sp.profile())
        try:
            try:
                CVAR, PREC, NEXP, VAR1, KSUM = arl.pack2d(a)
            except Exception as ex:
                h.candidate('pack-raised:' + type(ex).__name__,
                            repr(ex)[:200])
                return
            nexp = int(NEXP)
            h.observe('NEXP', nexp)
            cv = np.asarray(CVAR)
            cells = list(cv.reshape(-1))
            # no byte wrap-around
            for i, c in enumerate(cells):
                e = c.e if isinstance(c, symx.SymBVInt) else \
                    z3.BitVecVal(int(c), 32)
                h.claim('byte-range[%d]' % i, z3.And(e >= 0, e <= 255))
            # checksum
            tot = z3.BitVecVal(0, 32)
            for c in cells:
                tot = tot + (c.e if isinstance(c, symx.SymBVInt)
                             else z3.BitVecVal(int(c), 32))
            ks = KSUM.e if isinstance(KSUM, symx.SymBVInt) else \
                z3.BitVecVal(int(KSUM), 32)
            h.claim('checksum', ks == z3.URem(tot, z3.BitVecVal(255, 32)))
            h.claim('precision', z3.BoolVal(
                float(PREC) == float(np.float32((2.0 ** nexp) / 254.0))))
            # unpack
            try:
                v1 = np.empty(1, dtype=object)
                v1[0] = VAR1
                out = arl.unpack(cv.view(shim.SymNDArray),
                                 v1.view(shim.SymNDArray),
                                 np.array([nexp], dtype='i'))
            except Exception as ex:
                h.candidate('unpack-raised:' + type(ex).__name__,
                            repr(ex)[:200])
                return
            out = np.asarray(out).reshape(-1)
            # |out - x| <= step, exactly, inside float32: step is a power
            # of two, so the exact difference is within +-step iff its
            # directed roundings are
            step = z3.FPVal(2.0 ** (nexp - 7), symx.F32)
            first = out[0]
            h.claim('first-exact', z3.fpEQ(first.e, xs[0].e))
            for i in range(n if self.errb else 0):
                up = z3.fpSub(z3.RTP(), out[i].e, xs[i].e)
                dn = z3.fpSub(z3.RTN(), out[i].e, xs[i].e)
                h.claim('error-bound[%d]' % i, z3.And(
                    z3.fpLEQ(up, step), z3.fpGEQ(dn, z3.fpNeg(step))))
        finally:
            sys.setprofile(None)

    def real(self, inputs):
        import warnings
        with warnings.catch_warnings():
            warnings.simplefilter('ignore')
            from PseudoNetCDF.noaafiles import _arl
        n = self.shape[0] * self.shape[1]
        x = np.array([_bits(inputs.get('x%d' % i, 0.0)) for i in range(n)],
                     dtype='f').reshape(self.shape)
        viol = {}
        with np.errstate(all='ignore'):
            try:
                CVAR, PREC, NEXP, VAR1, KSUM = _arl.pack2d(x.copy())
            except Exception as ex:
                viol['pack-raised:' + type(ex).__name__] = repr(ex)[:200]
                return {'obs': {}, 'violations': viol}
            nexp = int(NEXP)
            # recompute the unwrapped integers the way the specification
            # (Fortran PAKOUT) does, in float32
            sc = np.float32(2.0 ** (7 - nexp))
            raw = np.zeros(self.shape, dtype='i8')
            rold_col = np.float32(x[0, 0])
            for j in range(self.shape[0]):
                rold = rold_col
                for i in range(self.shape[1]):
                    ic = int(np.int32((np.float32(x[j, i]) - rold) * sc +
                                      np.float32(127.5)))
                    raw[j, i] = ic
                    rold = np.float32(np.float32(ic - 127) / sc + rold)
                    if i == 0:
                        rold_col = rold
            bytes_ = np.frombuffer(CVAR.tobytes(), dtype='uint8').reshape(
                self.shape)
            for k, ic in enumerate(raw.reshape(-1)):
                if not (0 <= ic <= 255):
                    viol['byte-range[%d]' % k] = 'packed value %d wraps to ' \
                        '%d' % (ic, bytes_.reshape(-1)[k])
            if int(KSUM) != int(bytes_.astype('i8').sum()) % 255:
                viol['checksum'] = 'KSUM %d' % int(KSUM)
            try:
                out = _arl.unpack(bytes_[None], np.array([VAR1]),
                                  np.array([nexp], dtype='i'))[0]
            except Exception as ex:
                viol['unpack-raised:' + type(ex).__name__] = repr(ex)[:200]
                return {'obs': {'NEXP': nexp}, 'violations': viol}
            step = 2.0 ** (nexp - 7)
            if float(out[0, 0]) != float(x[0, 0]):
                viol['first-exact'] = '%r != %r' % (float(out[0, 0]),
                                                     float(x[0, 0]))
            err = np.abs(out.astype('d') - x.astype('d')).reshape(-1)
            for k, e in enumerate(err):
                if e > step:
                    viol['error-bound[%d]' % k] = \
                        'error %.6g = %.5f steps (NEXP=%d), field %r' % (
                            e, e / step, nexp, x.tolist())
        return {'obs': {'NEXP': nexp}, 'violations': viol,
                'field': x.tolist()}


# ---------------------------------------------------------------------------
# the reader's time axis: hours since the first record
# ---------------------------------------------------------------------------
class ArlTimeAxis(Obligation):
    """arlpackedbit.__init__: the statements from the decoding of the record
    time stamps to the assignment of the `time` variable (AST slice) run on
    symbolic instants first + k hours"""
    encoding_fragile = True
    mode = 'int'
    validate_paths = 3
    name = 'reader-time-axis[3 times, k hours apart]'
    bounds = {'times': 3, 'hours after the first record': '0 <= k1 <= k2 '
              '<= 17000 (two-digit years: within 1995-1997)'}
    stubs = ('datetime.strptime of a record stamp returns the symbolic '
             'instant of that record (symdatetime)',
             'createVariable returns a recorder for the assigned values')

    def fallback_inputs(self):
        return [{'k1': 6, 'k2': 12}, {'k1': 24, 'k2': 75},
                {'k1': 1, 'k2': 16999}]

    def _prep(self):
        import ast
        import copy
        import hashlib
        from verifx import symdatetime as sd
        sp = loader.TwinSpace(stubs={'datetime': sd.make_module()})
        M = sp.twin('PseudoNetCDF.noaafiles._arl')
        node, path = loader.get_function_ast('PseudoNetCDF.noaafiles._arl',
                                             'arlpackedbit.__init__')
        body = node.body
        start = [i for i, st in enumerate(body) if isinstance(st, ast.Assign)
                 and 'strptime' in ast.unparse(st.value)]
        if not start:
            raise loader.HarnessError('arlpackedbit.__init__: time stamp '
                                      'decoding not found')
        end = None
        tvar = None
        for i in range(start[0], len(body)):
            st = body[i]
            if isinstance(st, ast.Assign) and isinstance(
                    st.value, ast.Call) and 'createVariable' in ast.unparse(
                    st.value.func) and st.value.args and isinstance(
                    st.value.args[0], ast.Constant) and \
                    st.value.args[0].value == 'time':
                tvar = st.targets[0].id
            if tvar and isinstance(st, ast.Assign) and isinstance(
                    st.targets[0], ast.Subscript) and isinstance(
                    st.targets[0].value, ast.Name) and \
                    st.targets[0].value.id == tvar:
                end = i
                break
        if end is None:
            raise loader.HarnessError('arlpackedbit.__init__: assignment of '
                                      'the time variable not found')
        # the units statement that follows names the reference instant
        stm = body[start[0]:end + 1]
        for st in body[end + 1:end + 3]:
            if isinstance(st, ast.Assign) and isinstance(
                    st.targets[0], ast.Attribute) and \
                    st.targets[0].attr == 'units' and isinstance(
                    st.targets[0].value, ast.Name) and \
                    st.targets[0].value.id == tvar:
                stm.append(st)
        mod = ast.Module(body=[loader._Rewrite().visit(copy.deepcopy(x))
                               for x in stm], type_ignores=[])
        ast.fix_missing_locations(mod)
        src = [ast.unparse(x) for x in stm]
        self._info = {'file': 'src/PseudoNetCDF/noaafiles/_arl.py',
                      'qualname': 'arlpackedbit.__init__ (time axis)',
                      'statements': src,
                      'sha256': hashlib.sha256('\n'.join(src).encode())
                      .hexdigest()[:16]}
        return sp, M, compile(mod, path + ':<timeaxis>', 'exec'), tvar, sd

    def sym(self, ctx, h):
        sp, M, code, tvar, sd = self._prep()
        self._space = sp
        k1 = ctx.int('k1', 0, 17000)
        k2 = ctx.int('k2', 0, 17000)
        ctx.assume(k1.e <= k2.e, check=False)
        sd.YEAR_RANGE = (1995, 1997)
        sd.FORK_YEARS = True
        first = sd.datetime(1995, 10, 16, 0)
        inst = [first, first + sd.timedelta(hours=k1),
                first + sd.timedelta(hours=k2)]

        class Tok(object):
            def __init__(self, i):
                self.i = i

            def astype(self, *a):
                return self

            def decode(self, *a):
                return self

            def view(self, *a):
                return self

            def tobytes(self):
                return self

        class DT(object):
            @staticmethod
            def strptime(text, fmt):
                if not isinstance(text, Tok):
                    raise loader.HarnessError('time stamp text')
                return inst[text.i]

        class Rec(object):
            def __init__(self):
                self.__dict__['vals'] = None

            def __setitem__(self, k, v):
                self.__dict__['vals'] = v

        rec = Rec()
        me = type('S', (), {})()
        me.createVariable = lambda *a, **k: rec
        env = dict(M.__dict__)
        env['__builtins__'] = sp.builtins
        env.update(self=me, datetime=DT, tflag=[Tok(0), Tok(1), Tok(2)])
        try:
            exec(code, env)
        except loader.HarnessError:
            raise
        except NotImplementedError as ex:
            # e.g. strftime('%F') on a symbolic instant: only the values
            if rec.vals is None:
                raise loader.HarnessError('time axis: %r' % (ex,))
        except Exception as ex:
            raise loader.HarnessError('time axis: %r' % (ex,))
        vals = list(rec.vals)
        h.claim('count', z3.BoolVal(len(vals) == 3))
        if len(vals) == 3:
            h.claim('hours[0]', common.eq_expr(vals[0], 0))
            h.claim('hours[1]', common.eq_expr(vals[1], k1))
            h.claim('hours[2]', common.eq_expr(vals[2], k2))
        h.observe('ok', True)

    def real(self, inputs):
        import os
        import shutil
        import tempfile
        import warnings
        from verifx.symx import frac_of
        from . import arlfile
        k1 = max(0, min(int(frac_of(inputs.get('k1', 6))), 17000))
        k2 = max(k1, min(int(frac_of(inputs.get('k2', 12))), 17000))
        hours = [0]
        for k in (k1, k2):
            # equal stamps would be one time step: keep the records distinct
            hours.append(k if k > hours[-1] else hours[-1] + 1)
        tmp = tempfile.mkdtemp(prefix='verif_c20_')
        viol = {}
        try:
            with warnings.catch_warnings():
                warnings.simplefilter('ignore')
                try:
                    pr = arlfile.read_back_problems(
                        os.path.join(tmp, 'ARL.BIN'), hours)
                except Exception as ex:
                    pr = {'reader-raised': repr(ex)[:200]}
            for k, v in pr.items():
                viol['hours[*]' if k == 'times' else k] = v
        finally:
            shutil.rmtree(tmp, ignore_errors=True)
        return {'obs': {'ok': True}, 'violations': viol, 'hours': hours}

    any_violation_confirms = True


def obligations(tier):
    obs = [ArlTimeAxis()]
    if tier == 'quick':
        # byte range / checksum / first element / precision for all shapes;
        # the per-cell error bound costs 2-3 solver minutes per path and
        # cell (cvc5 and z3 agree): thorough tier only
        for sh in [(1, 2)]:
            for b in [(-6, -4), (-3, -2), (-1, -1), (0, 0), (1, 2), (3, 5)]:
                obs.append(Pack(sh, b, 100000, 1024.0, False))
        for e in (-3, -2, -1, 0, 1, 2):
            obs.append(Pack((1, 3), (e, e), 240000, 16.0, False, True))
        # largest difference just below a power of two, three cells: the
        # rounding carried from the second cell meets the byte range
        for e in (-1, 0):
            obs.append(Pack((1, 3), (e, e), 400000, 4.0, False, 'below'))
    else:
        for sh in [(1, 2), (1, 3), (2, 2), (1, 4), (2, 3)]:
            for b in [(-20, -11), (-10, -4), (-3, -1), (0, 3), (4, 10)]:
                obs.append(Pack(sh, b, 900000, 1024.0, False))
        for sh in [(1, 2), (1, 3)]:
            for e in range(-3, 4):
                obs.append(Pack(sh, (e, e), 1800000, 1024.0, True))
        for e in (-2, -1, 0, 1, 2):
            obs.append(Pack((1, 3), (e, e), 1800000, 16.0, False, 'below'))
    return obs
