"""Memory-mapped readers of the header-less CAMx meteorological files on a
prefix of a reference file (used by C14 for proper prefixes and by C09 for the
full length).

These readers discover the file structure from the data words themselves
(record length from a marker word, layer count from the first change of the
time stamp), so their control flow depends on the content.  The model:

  * the reference file (checks/layouts.py, independent encoder) is small and
    concrete; its length in bytes L is a *symbolic* integer, and so is the one
    word the generic reader trusts blindly -- the LAST word of the cut file when
    that word is payload (any float32 bit pattern: "for all payloads");
  * np.memmap is replaced by its documented contract on the symbolic length
    (raises unless the remaining bytes are a positive multiple of the item
    size); the word array it returns is the real numpy array of the prefix, so
    every later numpy step (reshape, fancy indexing, views, comparisons) is
    numpy's own code;
  * a reshape whose arguments depend on the symbolic word is decided by the
    solver: it raises unless the product equals the number of words, and
    otherwise the feasible record lengths (divisors) are enumerated by the
    solver and the word is fixed accordingly.

Verdict per path: the reader raises (at open or when the variable / time flags
are read), or it exposes k whole steps that fit in L with the values and time
flags of the full file."""
import os
import struct
import tempfile

import numpy as np
import z3

from verifx import symx, loader
from verifx.harness import Obligation
from verifx.symx import frac_of
from . import common, layouts


def cent(d):
    y2 = int(d) // 1000
    return ((1900 if y2 >= 70 else 2000) + y2) * 1000 + int(d) % 1000


class WordArr(np.ndarray):
    """the float32 word array np.memmap hands out, with the one symbolic
    word (the last one) and a solver-decided reshape"""
    _ctx = None
    _W = None          # SymInt: bit pattern (as int32) of the last word

    def __array_finalize__(self, obj):
        self._ctx = getattr(obj, '_ctx', None)
        self._W = None
        self._root = getattr(obj, '_root', None)

    def __getitem__(self, k):
        if isinstance(k, list) and k == [-1] and self._W is not None:
            return _LastWord(self._W)
        out = np.ndarray.__getitem__(self, k)
        return out

    def reshape(self, *shape, **kw):
        if len(shape) == 1 and isinstance(shape[0], (tuple, list)):
            shape = tuple(shape[0])
        if any(isinstance(s, symx.Sym) for s in shape):
            ctx = self._ctx
            prod = 1
            pos = z3.BoolVal(True)
            for s in shape:
                prod = prod * s
                pos = z3.And(pos, symx._b(s >= 0))
            ok = symx.SymBool(z3.And(pos, symx._b(prod == int(self.size))))
            if not ok:
                raise ValueError('cannot reshape array of size %d into the '
                                 'requested shape' % self.size)
            shape = tuple(int(s) for s in shape)
            if self._W is not None:
                w = ctx.concretize(symx._num(self._W)[1])
                root = self._root if self._root is not None else self
                np.ndarray.view(root, np.ndarray).view('>i4')[-1] = w
        shape = tuple(int(s) for s in shape)
        return np.ndarray.reshape(self, *shape, **kw)


class _LastWord(object):
    def __init__(self, W):
        self.W = W

    def view(self, dt):
        if np.dtype(dt).kind != 'i':
            raise loader.HarnessError('last word viewed as %r' % (dt,))
        return [self.W]


class CutMet(Obligation):
    """base: a met-file memmap reader on the prefix [0, L) of a reference
    file"""
    mode = 'int'
    validate_paths = 4
    max_paths = 600
    stubs = ('np.memmap (documented contract on a symbolic length; the '
             'mapped words are the real prefix array)',
             'reshape with symbolic arguments (raises unless the product is '
             'the word count; divisors enumerated by the solver)')
    any_violation_confirms = True
    modname = None
    clsname = None
    full = False

    def blob_and_data(self):
        raise NotImplementedError

    def open_twin(self, mod, path):
        raise NotImplementedError

    def open_real(self, path):
        raise NotImplementedError

    def last_word_is_payload(self, n):
        return False

    # ------------------------------------------------------------------
    def _verdict(self, f_open, nb, viol):
        """run the reader; returns observations.  f_open() -> (k, values
        {name: array}, tflag array[k, 2]) or raises"""
        blob, data, tflags, B = self.blob_and_data()
        try:
            k, vals, tf = f_open()
        except Exception as ex:
            return {'raised': True, 'how': type(ex).__name__}
        obs = {'raised': False, 'steps': int(k)}
        H = getattr(self, '_H', 0)
        if H + k * B > nb:
            viol['whole-steps-only'] = \
                '%d steps exposed but %d bytes hold only %d' % (
                    k, nb, max(nb - H, 0) // B)
            return obs
        if self.full and k != len(tflags):
            viol['all-steps'] = '%d steps exposed, %d encoded' % (
                k, len(tflags))
        for name, arr in vals.items():
            if name not in data:
                viol['data-of-full-file'] = \
                    'variable %s exposed, the full file has %s' % (
                        name, sorted(data))
                continue
            exp = data[name][:k]
            if tuple(arr.shape) != tuple(exp.shape) or \
                    not np.array_equal(
                        np.asarray(arr, dtype='f').view('i4'),
                        np.asarray(exp, dtype='f').view('i4')):
                viol['data-of-full-file'] = \
                    '%s: exposed values differ from the full file' % name
        exp = np.asarray(tflags[:k])
        if tuple(np.shape(tf)) != tuple(exp.shape) or \
                not np.array_equal(np.asarray(tf).astype('i8'), exp):
            viol['time-flags-of-full-file'] = 'TFLAG %r expected %r' % (
                np.asarray(tf).tolist()[:3], exp.tolist()[:3])
        return obs

    def sym(self, ctx, h):
        sp = loader.TwinSpace(stubs={
            'PseudoNetCDF.pncwarn': common.warn_stub(common.WarnRec())})
        mod = sp.twin(self.modname)
        self._space = sp
        blob, data, tflags, B = self.blob_and_data()
        lo, hi = self.Lrange(len(blob))
        L = ctx.int('L', lo, hi)
        W = ctx.int('W', -2 ** 31, 2 ** 31 - 1)
        state = {}

        def memmap(rf, dtype='>f', mode='r', offset=0, shape=None):
            nb = ctx.concretize(L.e)
            state['nb'] = nb
            isz = np.dtype(dtype).itemsize
            if shape is not None:
                raise loader.HarnessError('memmap with explicit shape')
            if nb - offset <= 0 or (nb - offset) % isz:
                raise ValueError('mmap length is not a positive multiple of '
                                 'the item size')
            raw = bytearray(blob[offset:nb])
            arr = np.frombuffer(raw, dtype=dtype).view(WordArr)
            arr._ctx = ctx
            arr._root = arr
            n = arr.size
            if self.last_word_is_payload(n):
                arr._W = W
            else:
                ctx.assume(W.e == 0, check=False)
            state['arr'] = arr
            return arr
        mod.memmap = memmap
        import sys
        sys.setprofile(sp.profile())
        try:
            viol = {}
            obs = self._verdict(lambda: self.open_twin(mod, 'symbolic'),
                                state.get('nb', 0) or
                                ctx.concretize(L.e), viol)
        finally:
            sys.setprofile(None)
        # with a symbolic last word the reference file is the one whose word
        # at that position has the value the path fixed
        h.observe('raised', obs['raised'])
        if not obs['raised']:
            h.observe('steps', obs['steps'])
        for lab in ('whole-steps-only', 'data-of-full-file',
                    'time-flags-of-full-file', 'all-steps'):
            h.claim(lab, z3.BoolVal(lab not in viol))
        if self.full:
            h.claim('opens', z3.BoolVal(not obs['raised']))

    def real(self, inputs):
        import warnings
        blob, data, tflags, B = self.blob_and_data()
        L = int(frac_of(inputs.get('L', len(blob))))
        W = int(frac_of(inputs.get('W', 0)))
        raw = bytearray(blob[:L])
        if L % 4 == 0 and L >= 4 and self.last_word_is_payload(L // 4):
            raw[-4:] = struct.pack('>i', W)
            # the reference ("full") file has the same word there
            blob = bytes(raw) + blob[L:]
            self._patched = blob
        viol = {}
        d = tempfile.mkdtemp(prefix='verif_met_')
        path = os.path.join(d, 'cut.bin')
        try:
            with open(path, 'wb') as f:
                f.write(raw)
            with warnings.catch_warnings():
                warnings.simplefilter('ignore')
                try:
                    obs = self._verdict(lambda: self.open_real(path), L, viol)
                finally:
                    self._patched = None
        finally:
            import shutil
            shutil.rmtree(d, ignore_errors=True)
        if self.full and obs['raised']:
            viol['opens'] = 'raised %s on a complete file' % obs.get('how')
        o = {'raised': obs['raised']}
        if not obs['raised']:
            o['steps'] = obs['steps']
        return {'obs': o, 'violations': viol, 'L': L}

    _patched = None

    def Lrange(self, full):
        return (1, full - 1)


class CutMetFile(CutMet):
    """one3d (generic 3-D; humidity and vertical_diffusivity are subclasses
    without reading code of their own), temperature, height_pressure"""
    READERS = {
        'one3d': ('PseudoNetCDF.camxfiles.one3d.Memmap', 'one3d'),
        'temperature': ('PseudoNetCDF.camxfiles.temperature.Memmap',
                        'temperature'),
        'height_pressure': ('PseudoNetCDF.camxfiles.height_pressure.Memmap',
                            'height_pressure'),
    }

    def __init__(self, fmt, nz, T, rows, cols, explicit, rec=None, h0=22):
        self.fmt = fmt
        self.modname, self.clsname = self.READERS[fmt]
        self.nz, self.T, self.rows, self.cols = nz, T, rows, cols
        self.explicit, self.rec, self.h0 = explicit, rec, h0
        self.name = 'cut-%s[nz=%d,T=%d,rows=%d,cols=%d,%s,record=%s]' % (
            fmt, nz, T, rows, cols,
            'explicit-grid' if explicit else 'inferred', rec)
        self.bounds = {'nz': nz, 'T': T, 'rows': rows, 'cols': cols,
                       'L': 'every byte offset inside record %s' % rec,
                       'last word': 'any 32-bit pattern when it is payload'}
        self._bd = None

    def layout(self):
        return layouts.MetLayout(self.fmt, self.nz, self.T,
                                 self.rows * self.cols, 4365, self.h0 * 100)

    def _fields(self, blob):
        lay = self.layout()
        cells = self.rows * self.cols
        w = np.frombuffer(blob, '>f4').reshape(
            self.T, len(lay.seq), cells + 4)[:, :, 3:-1]
        out = {}
        for i, (var, k) in enumerate(lay.seq):
            if k is None:
                out[var] = np.asarray(w[:, i], dtype='f').reshape(
                    self.T, self.rows, self.cols)
            else:
                a = out.setdefault(var, np.zeros(
                    (self.T, self.nz, self.rows, self.cols), 'f'))
                a[:, k] = np.asarray(w[:, i], dtype='f').reshape(
                    self.T, self.rows, self.cols)
        return out

    def blob_and_data(self):
        if self._patched is not None:
            return (self._patched, self._fields(self._patched), self._bd[2],
                    self._bd[3])
        if self._bd is None:
            lay = self.layout()
            d = tempfile.mkdtemp(prefix='verif_met_')
            p = os.path.join(d, 'full.bin')
            try:
                lay.write_fields(p, self.rows, self.cols)
                with open(p, 'rb') as f:
                    blob = f.read()
            finally:
                os.remove(p)
                os.rmdir(d)
            tfl = [(cent(dd), int(tt) * 100) for dd, tt in lay.times]
            self._bd = (blob, self._fields(blob), tfl, lay.B)
        return self._bd

    def Lrange(self, full):
        if self.rec is None:
            return (1, full - 1)
        P = self.layout().P
        return (max(1, self.rec * P), min(full - 1, (self.rec + 1) * P - 1))

    def last_word_is_payload(self, n):
        if self.explicit or self.fmt != 'one3d':
            return False
        items = self.rows * self.cols + 4
        return 3 <= (n - 1) % items <= items - 2

    def _open(self, cls, path):
        if self.explicit:
            f = cls(path, self.rows, self.cols)
        else:
            f = cls(path)
        k = len(f.dimensions['TSTEP'])
        vals = {}
        for var in sorted(set(v for v, _ in self.layout().seq)):
            v = np.asarray(f.variables[var][:])
            if not self.explicit:
                want = v.shape[:-2] + (self.rows, self.cols)
                if v.size == int(np.prod(want)):
                    v = v.reshape(want)
            vals[var] = v
        tf = np.asarray(f.variables['TFLAG'][:])[:, 0, :]
        return k, vals, tf

    def open_twin(self, mod, path):
        return self._open(getattr(mod, self.clsname), path)

    def open_real(self, path):
        import importlib
        mod = importlib.import_module(self.modname)
        return self._open(getattr(mod, self.clsname), path)


class FullMetFile(CutMetFile):
    """the complete file (C09, reference encoder -> library reader)"""
    full = True

    def __init__(self, fmt, nz, T, rows, cols, explicit, h0=22):
        CutMetFile.__init__(self, fmt, nz, T, rows, cols, explicit, None, h0)
        self.name = 'reader-%s-full[nz=%d,T=%d,rows=%d,cols=%d,%s]' % (
            fmt, nz, T, rows, cols,
            'explicit-grid' if explicit else 'inferred')
        self.bounds = {'nz': nz, 'T': T, 'rows': rows, 'cols': cols}

    def Lrange(self, full):
        return (full, full)


class _Hang(BaseException):
    pass


def _with_alarm(seconds, fn):
    """run fn() under a wall-clock limit (the obligations run in the main
    thread of their own worker process)"""
    import signal

    def onalarm(signum, frame):
        raise _Hang('no result after %d s' % seconds)
    old = signal.signal(signal.SIGALRM, onalarm)
    signal.setitimer(signal.ITIMER_REAL, seconds)
    try:
        return fn()
    finally:
        signal.setitimer(signal.ITIMER_REAL, 0)
        signal.signal(signal.SIGALRM, old)


class CutWind(CutMet):
    """wind memmap reader (RecordFile walk at open time + whole-file word
    mapping) on the prefix [0, L) of a reference wind file.  The reader needs
    a real path, so the prefix is written to a scratch file once the solver
    has fixed L; termination is part of the verdict (wall-clock limit)."""
    modname = 'PseudoNetCDF.camxfiles.wind.Memmap'
    stubs = ('file length symbolic; the prefix is materialised per feasible '
             'length class', 'wall-clock limit of 4 s for "terminates"')
    LIMIT = 4

    def __init__(self, nz, T, rows, cols, rec=None, h0=22):
        self.nz, self.T, self.rows, self.cols = nz, T, rows, cols
        self.rec, self.h0 = rec, h0
        self.name = 'cut-wind[nz=%d,T=%d,rows=%d,cols=%d,record=%s]' % (
            nz, T, rows, cols, rec)
        self.bounds = {'nz': nz, 'T': T, 'rows': rows, 'cols': cols,
                       'L': 'every byte offset inside record %s' % rec}
        self._bd = None

    def layout(self):
        return layouts.WindLayout(self.nz, self.T, self.rows * self.cols, 1,
                                  4365, self.h0 * 100)

    def _starts(self):
        lay = self.layout()
        out = []
        for ti in range(self.T):
            out.append(lay.header(ti))
            for k in range(self.nz):
                out += [lay.data_record(ti, k, 0), lay.data_record(ti, k, 1)]
            out.append(lay.dummy_record(ti))
        return out + [lay.length]

    def blob_and_data(self):
        if self._bd is None:
            lay = self.layout()
            d = tempfile.mkdtemp(prefix='verif_met_')
            p = os.path.join(d, 'full.bin')
            try:
                data = lay.write_real(p, self.rows, self.cols)
                with open(p, 'rb') as f:
                    blob = f.read()
            finally:
                os.remove(p)
                os.rmdir(d)
            tfl = [(cent(dd), int(tt) * 100) for dd, tt in lay.times]
            self._bd = (blob, data, tfl, lay.B)
        return self._bd

    def Lrange(self, full):
        if self.rec is None:
            return (1, full - 1)
        st = self._starts()
        return (max(1, st[self.rec]), min(full - 1, st[self.rec + 1] - 1))

    def _open(self, cls, path):
        def go():
            f = cls(path, self.rows, self.cols)
            k = len(f.dimensions['TSTEP'])
            vals = dict((v, np.asarray(f.variables[v][:])) for v in 'UV')
            tf = np.asarray(f.variables['TFLAG'][:])[:, 0, :]
            return k, vals, tf
        return _with_alarm(self.LIMIT, go)

    def _verdict(self, f_open, nb, viol):
        try:
            return CutMet._verdict(self, f_open, nb, viol)
        except _Hang:
            raise

    def sym(self, ctx, h):
        self._sym_with(ctx, h, 'wind')

    def real(self, inputs):
        return self._real_with(inputs, 'wind')

    def _sym_with(self, ctx, h, clsname):
        sp = loader.TwinSpace(stubs={
            'PseudoNetCDF.pncwarn': common.warn_stub(common.WarnRec())})
        mod = sp.twin(self.modname)
        self._space = sp
        blob, data, tflags, B = self.blob_and_data()
        lo, hi = self.Lrange(len(blob))
        L = ctx.int('L', lo, hi)
        ctx.max_concretize = max(ctx.max_concretize, hi - lo + 2)
        nb = ctx.concretize(L.e)
        d = tempfile.mkdtemp(prefix='verif_met_')
        path = os.path.join(d, 'cut.bin')
        import sys
        try:
            with open(path, 'wb') as f:
                f.write(blob[:nb])
            viol = {}
            sys.setprofile(sp.profile())
            try:
                obs = self._run(lambda: self._open(getattr(mod, clsname),
                                                   path), nb, viol)
            finally:
                sys.setprofile(None)
        finally:
            import shutil
            shutil.rmtree(d, ignore_errors=True)
        h.observe('raised', obs['raised'])
        if not obs['raised'] and 'steps' in obs:
            h.observe('steps', obs['steps'])
        for lab in ('terminates', 'whole-steps-only', 'data-of-full-file',
                    'time-flags-of-full-file', 'all-steps'):
            h.claim(lab, z3.BoolVal(lab not in viol))
        if self.full:
            h.claim('opens', z3.BoolVal(not obs['raised']))

    def _run(self, f_open, nb, viol):
        try:
            return CutMet._verdict(self, f_open, nb, viol)
        except _Hang as ex:
            viol['terminates'] = str(ex)
            return {'raised': False}

    def _real_with(self, inputs, clsname):
        import importlib
        import warnings
        blob, data, tflags, B = self.blob_and_data()
        L = int(frac_of(inputs.get('L', len(blob))))
        viol = {}
        d = tempfile.mkdtemp(prefix='verif_met_')
        path = os.path.join(d, 'cut.bin')
        try:
            with open(path, 'wb') as f:
                f.write(blob[:L])
            with warnings.catch_warnings():
                warnings.simplefilter('ignore')
                cls = getattr(importlib.import_module(self.modname), clsname)
                obs = self._run(lambda: self._open(cls, path), L, viol)
        finally:
            import shutil
            shutil.rmtree(d, ignore_errors=True)
        if self.full and obs['raised']:
            viol['opens'] = 'raised %s on a complete file' % obs.get('how')
        o = {'raised': obs['raised']}
        if not obs['raised'] and 'steps' in obs:
            o['steps'] = obs['steps']
        return {'obs': o, 'violations': viol, 'L': L}


class CutCloudRain(CutWind):
    """cloud/rain memmap reader on the prefix [0, L) of a reference file"""
    modname = 'PseudoNetCDF.camxfiles.cloud_rain.Memmap'
    KEYS = {5: ['CLOUD', 'RAIN', 'SNOW', 'GRAUPEL', 'COD'],
            3: ['CLOUD', 'PRECIP', 'COD']}

    def __init__(self, nvars, nz, T, rows, cols, rec=None, zero=False, h0=22):
        self.nvars, self.zero = nvars, zero
        CutWind.__init__(self, nz, T, rows, cols, rec, h0)
        self.name = 'cut-cloud_rain[nvars=%d,nz=%d,T=%d,rows=%d,cols=%d,' \
            '%srecord=%s]' % (nvars, nz, T, rows, cols,
                              'zero-payload,' if zero else '', rec)

    def layout(self):
        return layouts.CloudRainLayout(self.nvars, self.nz, self.T,
                                       self.rows, self.cols, 4365,
                                       self.h0 * 100)

    def _starts(self):
        return self.layout().record_starts()

    def blob_and_data(self):
        if self._bd is None:
            lay = self.layout()
            d = tempfile.mkdtemp(prefix='verif_met_')
            p = os.path.join(d, 'full.bin')
            try:
                arr = lay.write_real(p, self.zero)
                with open(p, 'rb') as f:
                    blob = f.read()
            finally:
                os.remove(p)
                os.rmdir(d)
            data = dict((k, arr[:, :, i]) for i, k in enumerate(
                self.KEYS[self.nvars]))
            tfl = [(cent(dd), int(tt) * 100) for dd, tt in lay.times]
            self._bd = (blob, data, tfl, lay.B)
            self._H = lay.H
        return self._bd

    def _open(self, cls, path):
        def go():
            f = cls(path, self.rows, self.cols)
            k = len(f.dimensions['TSTEP'])
            keys = [v for v in f.variables.keys() if v != 'TFLAG']
            vals = dict((v, np.asarray(f.variables[v][:])) for v in keys)
            tf = np.asarray(f.variables['TFLAG'][:])[:, 0, :]
            return k, vals, tf
        return _with_alarm(self.LIMIT, go)

    def _verdict_data(self):
        pass

    def _cls(self, mod):
        return mod.cloud_rain

    def sym(self, ctx, h):
        # constants the known-findings region refers to
        lay = self.layout()
        other = 16 + (8 - self.nvars) * self.nz * lay.P
        ctx.inputs['H'] = z3.IntVal(lay.H)
        ctx.inputs['step_own'] = z3.IntVal(lay.B)
        ctx.inputs['step_other'] = z3.IntVal(other)
        self._sym_with(ctx, h, 'cloud_rain')

    def real(self, inputs):
        return self._real_with(inputs, 'cloud_rain')


class CutLatBnd(CutWind):
    """lateral-boundary memmap reader on the prefix [0, L) of a reference
    file"""
    modname = 'PseudoNetCDF.camxfiles.lateral_boundary.Memmap'
    max_paths = 3000

    def __init__(self, nspec, nz, T, nx, ny, rec=None, h0=22):
        self.nspec = nspec
        CutWind.__init__(self, nz, T, ny, nx, rec, h0)
        self.name = 'cut-lateral_boundary[nspec=%d,nz=%d,T=%d,nx=%d,ny=%d,' \
            'record=%s]' % (nspec, nz, T, nx, ny, rec)

    def layout(self):
        return layouts.LatBndLayout(self.nspec, self.nz, self.T, self.cols,
                                    self.rows, 4365, self.h0)

    def blob_and_data(self):
        if self._bd is None:
            lay = self.layout()
            d = tempfile.mkdtemp(prefix='verif_met_')
            p = os.path.join(d, 'full.bin')
            try:
                arr = lay.write_real(p)
                with open(p, 'rb') as f:
                    blob = f.read()
            finally:
                os.remove(p)
                os.rmdir(d)
            data = {}
            for en, n in lay.edges:
                for si, sn in enumerate(lay.spcnames):
                    data[en + '_' + sn.strip()] = arr[en][:, si]
            tfl = [(cent(t[0]), int(t[1]) * 10000) for t in lay.times]
            self._bd = (blob, data, tfl, lay.B)
            self._H = lay.H
            self._st = lay.starts
        return self._bd

    def _starts(self):
        self.blob_and_data()
        # the static header is one "record" for the purpose of splitting
        return [0] + self._st[self.layout_nstatic():]

    def layout_nstatic(self):
        return 8

    def Lrange(self, full):
        lo, hi = CutWind.Lrange(self, full)
        if self.rec == 0:
            # inside the static header only the last 64 byte offsets are
            # explored (the reader maps each header record with an explicit
            # shape, which np.memmap refuses beyond the end of the file)
            lo = max(lo, hi - 63)
        return lo, hi

    def _open(self, cls, path):
        def go():
            f = cls(path)
            k = len(f.dimensions['TSTEP'])
            keys = [v for v in f.variables.keys()
                    if v not in ('TFLAG', 'ETFLAG')]
            vals = dict((v, np.asarray(f.variables[v][:])) for v in keys)
            tf = np.asarray(f.variables['TFLAG'][:])[:, 0, :]
            return k, vals, tf
        return _with_alarm(self.LIMIT, go)

    def sym(self, ctx, h):
        self._sym_with(ctx, h, 'lateral_boundary')

    def real(self, inputs):
        return self._real_with(inputs, 'lateral_boundary')


class FullLatBnd(CutLatBnd):
    full = True

    def __init__(self, nspec, nz, T, nx, ny, h0=22):
        CutLatBnd.__init__(self, nspec, nz, T, nx, ny, None, h0)
        self.name = 'reader-lateral_boundary-full[nspec=%d,nz=%d,T=%d,' \
            'nx=%d,ny=%d]' % (nspec, nz, T, nx, ny)
        self.bounds = {'nspec': nspec, 'nz': nz, 'T': T, 'nx': nx, 'ny': ny}

    def Lrange(self, full):
        return (full, full)


class FullWind(CutWind):
    full = True

    def __init__(self, nz, T, rows, cols, h0=22):
        CutWind.__init__(self, nz, T, rows, cols, None, h0)
        self.name = 'reader-wind-full[nz=%d,T=%d,rows=%d,cols=%d]' % (
            nz, T, rows, cols)
        self.bounds = {'nz': nz, 'T': T, 'rows': rows, 'cols': cols}

    def Lrange(self, full):
        return (full, full)



def cut_obligations(tier):
    obs = []
    grids = [(2, 3, 1, 3), (1, 3, 2, 1)]
    if tier == 'thorough':
        grids += [(3, 2, 2, 2), (2, 4, 1, 1), (1, 5, 1, 2)]
    for fmt in ('one3d', 'temperature', 'height_pressure'):
        for nz, T, rows, cols in grids:
            for explicit in (True, False):
                if not explicit and (rows != 1 or fmt != 'one3d'):
                    continue
                lay = layouts.MetLayout(fmt, nz, T, rows * cols, 4365, 2200)
                for rec in range(len(lay.seq) * T):
                    obs.append(CutMetFile(fmt, nz, T, rows, cols, explicit,
                                          rec))
    for nz, T, rows, cols in ([(2, 2, 1, 2), (1, 3, 2, 1)] if tier == 'quick'
                              else [(2, 2, 1, 2), (1, 3, 2, 1), (2, 3, 2, 2),
                                    (3, 2, 1, 3)]):
        for rec in range((2 * nz + 2) * T):
            obs.append(CutWind(nz, T, rows, cols, rec))
    for nvars, nz, T, rows, cols in (
            [(5, 1, 3, 1, 2), (3, 2, 2, 1, 2)] if tier == 'quick' else
            [(5, 1, 3, 1, 2), (3, 2, 2, 1, 2), (5, 2, 2, 2, 2),
             (3, 1, 4, 1, 3)]):
        n = 1 + T * (1 + nvars * nz)
        for rec in range(n):
            obs.append(CutCloudRain(nvars, nz, T, rows, cols, rec))
    for nspec, nz, T, nx, ny in ([(1, 1, 2, 2, 3)] if tier == 'quick' else
                                 [(1, 1, 2, 2, 3), (2, 2, 2, 3, 2)]):
        n = 1 + T * (1 + nspec * 4)
        for rec in range(n):
            obs.append(CutLatBnd(nspec, nz, T, nx, ny, rec))
    return obs


def full_obligations(tier):
    obs = []
    grids = [(2, 3, 1, 3), (1, 3, 2, 1), (2, 2, 2, 2), (1, 2, 1, 1),
             (2, 1, 1, 2)]
    if tier == 'thorough':
        grids += [(3, 2, 2, 2), (2, 4, 1, 1), (1, 5, 1, 2), (1, 1, 1, 1)]
    for fmt in ('one3d', 'temperature', 'height_pressure'):
        for nz, T, rows, cols in grids:
            for explicit in (True, False):
                if not explicit and (rows != 1 or fmt != 'one3d'):
                    continue
                obs.append(FullMetFile(fmt, nz, T, rows, cols, explicit))
    for nz, T, rows, cols in ((2, 2, 1, 2), (1, 3, 2, 1), (2, 3, 2, 2)):
        obs.append(FullWind(nz, T, rows, cols))
    for nspec, nz, T, nx, ny in ((1, 1, 2, 2, 3), (2, 2, 3, 3, 2)):
        obs.append(FullLatBnd(nspec, nz, T, nx, ny))
    return obs
