"""C08 -- CAMx write/read round trip (time-flag and record-size kernels of the
gridded uamiv format).

Encoded: the date/time header statements of camxfiles/uamiv/Write.py:ncf2uamiv
(AST slice: date_s, time_s, date_e, time_e, tincr), ArrayTransforms.py:
ConvertCAMxTime (whole function, twin) as used by camxfiles/uamiv/Memmap.py to
turn the header fields back into TFLAG/ETFLAG, and the record-marker
expressions of the writer.  Start date/time are symbolic; whole-hour steps."""
import z3
import numpy as np

from verifx import symx, loader, symdatetime as sd
from verifx.harness import Obligation
from verifx.symx import frac_of
from . import common
from .c11 import _flag
from .c12 import _valid_date, _g

PROPERTY = 'C08'
LEVEL = 'model_checking'
ASSUMPTIONS = [
    'uamiv (gridded average/emissions): the time-flag path (TFLAG/ETFLAG -> '
    'header -> TFLAG/ETFLAG); payload floats are bit copies and are not '
    'modelled symbolically (compared in replay)',
    'one3d (= humidity, vertical_diffusivity), temperature, height_pressure, '
    'wind, cloud_rain: the whole writer function on a byte sink (checks/metwrite.py) composed '
    'with the readers\' ConvertCAMxTime; payload concrete incl. -0.0 and a '
    'denormal; lateral boundary: only the time-header statements '
    '(sliced) with the reader\'s ConvertCAMxTime; land-use is NOT '
    'covered; the idempotent-rewrite clause is not claimed',
    'whole-hour steps; float32 header times are exact for whole hours '
    '(|HHMMSS| < 2**24) so they are modelled as reals',
    'start year enumerated (1970, 1999, 2000, 2003, 2004, 2069), day of '
    'year and hour symbolic, T <= 3 consecutive hourly steps',
]

MANIFEST = {
    'category': 'model_checking',
    'technique': 'AST-sliced date/time statements of the real ncf2uamiv '
                 'writer composed with the real ConvertCAMxTime reader '
                 'function on z3 integers; SMT validity of the flag round '
                 'trip; replay by writing and reading a real file',
    'text': 'Bounded symbolic checking of the time-flag round trip of the '
            'gridded CAMx format: for every start day of year and hour in '
            'the enumerated years and T<=3 hourly steps (with and without an '
            'ETFLAG variable), the begin flags read back equal the flags '
            'written and the end flags equal begin + 1 h, including day, '
            'leap-day, year and century roll-overs. For the one3d, '
            'temperature, height_pressure, wind and cloud_rain writers: every record written '
            'equals the reference layout (markers, HHMM time, YYJJJ date, '
            'payload bytes) and the readers\' time reconstruction returns the '
            'flags, for every start day/hour of the enumerated years.'
            ' Also: uamiv steps of 24 h and 72 h (6 h - 240 h thorough) starting on any day of 2003; every field of the uamiv grid/projection record equals the attribute it is named after (symbolic attribute values).',
    'note': 'Trusted: z3, symdatetime reference arithmetic. Partial claim: '
            'uamiv and lateral-boundary time flags and 5 met writers; grid header mapping, '
            'rewrite idempotence and the other CAMx formats are outside.',
}

W_NAMES = ['date_s', 'time_s', 'date_e', 'time_e', 'tincr']


class _NCF(object):
    pass


class _Fields(dict):
    """stand-in for the structured time-header array: one array per field;
    assigning to a field copies the values, as a structured array does"""

    def __setitem__(self, k, v):
        from verifx import shim
        a = np.array(v, dtype=object, copy=True)
        dict.__setitem__(self, k, a.view(shim.SymNDArray))


class TimeRoundTrip(Obligation):
    mode = 'int'
    validate_paths = 6
    max_paths = 400
    timeout_ms = 60000
    stubs = ('datetime reference (symdatetime calendar tables)',)
    encoding_fragile = True          # AST slice of ncf2uamiv
    replay_only_labels = ('payload', 'rewrite', 'file-header-span')

    def fallback_inputs(self):
        last = 366 if self.year % 4 == 0 else 365
        if self.year == 2069:
            last = 364       # end flags in 2070 are outside the YYJJJ format
        return [{'d_j': last, 't_H': 23}, {'d_j': last, 't_H': 22},
                {'d_j': 1, 't_H': 0}, {'d_j': 59, 't_H': 23},
                {'d_j': 200, 't_H': 11}]

    def __init__(self, year, T, etflag, step_h=1):
        self.year, self.T, self.etflag = year, T, etflag
        self.step_h = step_h
        self.name = 'time-roundtrip[%d,T=%d,ETFLAG=%s%s]' % (
            year, T, etflag, '' if step_h == 1 else ',step=%dh' % step_h)
        self.bounds = {'year': year, 'T': T, 'step (hours)': step_h}
        self._k = None

    def kernel(self):
        if self._k is None:
            sp = loader.TwinSpace(objfloat='all')
            # everything the time-header fields are computed from (backward
            # dependency closure from the item assignments  time_hdr[...] =)
            run, info = loader.slice_kernel(
                'PseudoNetCDF.camxfiles.uamiv.Write', 'ncf2uamiv',
                ['time_hdr[]'], guards=False, space=sp,
                provided=['ncffile', 'time_hdr'])
            # the file header repeats the span of the time records
            try:
                run2, info2 = loader.slice_kernel(
                    'PseudoNetCDF.camxfiles.uamiv.Write', 'ncf2uamiv',
                    ['time_hdr[]', 'emiss_hdr[]'], guards=False, space=sp,
                    provided=['ncffile', 'time_hdr', 'emiss_hdr', 'np',
                              '_emiss_hdr_fmt'])
                self._span = run2
                info = info2
            except loader.HarnessError:
                self._span = None
            wmod = sp.twin('PseudoNetCDF.camxfiles.uamiv.Write')
            conv = sp.twin('PseudoNetCDF.ArrayTransforms').ConvertCAMxTime
            self._k = (run, info, wmod, conv, sp)
            self._info = info
            self._space = sp
        return self._k

    def _flags(self, j, H):
        """(begin, end) flags of the T hourly steps"""
        out = []
        for t in range(self.T):
            st = getattr(self, 'step_h', 1) * 3600
            by, bj, bh = _flag(self.year, j, H, 0, t * st)
            ey, ej, eh = _flag(self.year, j, H, 0, (t + 1) * st)
            out.append(((by * 1000 + bj, bh), (ey * 1000 + ej, eh)))
        return out

    def sym(self, ctx, h):
        run, info, wmod, conv, sp = self.kernel()
        sd.YEAR_RANGE = (self.year - 1, self.year + 1)
        sd.FORK_YEARS = True
        _valid_date(ctx, 'd', self.year, self.year)
        j = symx.SymInt(ctx.inputs['d_j'])
        H = ctx.int('t_H', 0, 23)
        if self.year == 2069:
            # YYJJJ has two-digit years with the pivot at 70: flags in 2070
            # (the end of the last hours of 2069) are outside the format
            ctx.assume(ctx.inputs['d_j'] <= 364, check=False)
        flags = self._flags(j, H)
        tf = np.empty((self.T, 1, 2), dtype=object)
        et = np.empty((self.T, 1, 2), dtype=object)
        for t, (b, e) in enumerate(flags):
            tf[t, 0, 0], tf[t, 0, 1] = b
            et[t, 0, 0], et[t, 0, 1] = e
        from verifx import shim
        nc = _NCF()
        nc.variables = {'TFLAG': tf.view(shim.SymNDArray)}
        if self.etflag:
            nc.variables['ETFLAG'] = et.view(shim.SymNDArray)
        nc.TSTEP = 10000 * getattr(self, 'step_h', 1)
        env = dict(wmod.__dict__)
        env['ncffile'] = nc
        env['time_hdr'] = _Fields()
        import sys
        sys.setprofile(sp.profile())
        try:
            try:
                out = run(env)
                th = out['time_hdr']
                fld = [np.array(list(th[k]), dtype=object)
                       .view(shim.SymNDArray)
                       for k in ('ibdate', 'btime', 'iedate', 'etime')]
            except Exception as ex:
                h.candidate('writer-raised:' + type(ex).__name__,
                            repr(ex)[:200])
                return
            try:
                tflag2 = conv(fld[0], fld[1], 1)
                etflag2 = conv(fld[2], fld[3], 1)
            except Exception as ex:
                h.candidate('reader-raised:' + type(ex).__name__,
                            repr(ex)[:200])
                return
        finally:
            sys.setprofile(None)
        for t, (b, e) in enumerate(flags):
            h.claim('TFLAG-date[%d]' % t,
                    common.eq_expr(tflag2[t, 0, 0], b[0]))
            h.claim('TFLAG-time[%d]' % t,
                    common.eq_expr(tflag2[t, 0, 1], b[1]))
            h.claim('ETFLAG-date[%d]' % t,
                    common.eq_expr(etflag2[t, 0, 0], e[0]))
            h.claim('ETFLAG-time[%d]' % t,
                    common.eq_expr(etflag2[t, 0, 1], e[1]))
        h.observe('tflag', [[tflag2[t, 0, 0], tflag2[t, 0, 1]]
                            for t in range(self.T)])
        span = getattr(self, '_span', None)
        if span is not None:
            class _EH(dict):
                def __setitem__(self, k, v):
                    dict.__setitem__(self, k, v)
            env2 = dict(wmod.__dict__)
            nc.dimensions = {'VAR': range(1)}
            env2.update({'ncffile': nc, 'time_hdr': _Fields(),
                         'emiss_hdr': _EH()})
            try:
                out2 = span(env2)
                eh, th2 = out2['emiss_hdr'], out2['time_hdr']

                def one(x):
                    return np.asarray(x, dtype=object).reshape(-1)[0]
                h.claim('file-header-span', z3.And(
                    common.eq_expr(one(eh['ibdate']), th2['ibdate'][0]),
                    common.eq_expr(one(eh['btime']), th2['btime'][0]),
                    common.eq_expr(one(eh['iedate']), th2['iedate'][-1]),
                    common.eq_expr(one(eh['etime']), th2['etime'][-1])))
            except Exception as ex:
                h.candidate('header-span-raised:' + type(ex).__name__,
                            repr(ex)[:200])

    def real(self, inputs):
        """write a real uamiv file with the library writer from an in-memory
        CAMx-convention file, read it back with the memmap reader"""
        import os
        import tempfile
        import warnings
        j = _g(inputs, 'd_j', 1)
        H = _g(inputs, 't_H', 0)
        flags = self._flags(j, H)
        viol = {}
        obs = {}
        d = tempfile.mkdtemp(prefix='verif_c08_')
        path = os.path.join(d, 'out.uamiv')
        try:
            with warnings.catch_warnings():
                warnings.simplefilter('ignore')
                from PseudoNetCDF import PseudoNetCDFFile
                from PseudoNetCDF.camxfiles.uamiv.Write import ncf2uamiv
                from PseudoNetCDF.camxfiles.uamiv.Memmap import uamiv
                f = PseudoNetCDFFile()
                f.createDimension('TSTEP', self.T)
                f.createDimension('LAY', 1)
                f.createDimension('ROW', 2)
                f.createDimension('COL', 2)
                f.createDimension('VAR', 1)
                f.createDimension('DATE-TIME', 2)
                tv = f.createVariable('TFLAG', 'i', ('TSTEP', 'VAR',
                                                     'DATE-TIME'))
                if self.etflag:
                    ev = f.createVariable('ETFLAG', 'i', ('TSTEP', 'VAR',
                                                          'DATE-TIME'))
                for t, (b, e) in enumerate(flags):
                    tv[t, 0, :] = b
                    if self.etflag:
                        ev[t, 0, :] = e
                v = f.createVariable('O3', 'f', ('TSTEP', 'LAY', 'ROW',
                                                 'COL'))
                pay = np.arange(self.T * 4, dtype='f').reshape(self.T, 1, 2,
                                                               2)
                # bit patterns that must travel unchanged
                pay[0] = -0.0
                pay[-1, 0, 1, 1] = np.float32(1e-45)
                v[:] = pay
                f.NAME, f.NOTE = 'AVERAGE   ', 'x'.ljust(60)
                f.ITZON, f.PLON, f.PLAT, f.IUTM = 0, 0., 0., 0
                f.XORIG, f.YORIG, f.XCELL, f.YCELL = 0., 0., 1000., 1000.
                f.CPROJ, f.TLAT1, f.TLAT2, f.ISTAG = 0, 0., 0., 0
                f.TSTEP = 10000 * getattr(self, 'step_h', 1)
                setattr(f, 'VAR-LIST', 'O3'.ljust(16))
                try:
                    ncf2uamiv(f, path).close()
                    g = uamiv(path)
                    t2 = np.array(g.variables['TFLAG'][:, 0, :])
                    e2 = np.array(g.variables['ETFLAG'][:, 0, :])
                    # file header span = first begin .. last end
                    import struct
                    blob = open(path, 'rb').read()
                    hb = struct.unpack('>ifif', blob[4 + 288:4 + 304])
                    # header records: 304, 60, 16 and 40 (one species) bytes,
                    # each framed by two 4-byte markers; a data record holds
                    # ione, the name (10 words) and 2 x 2 cells
                    off = (304 + 8) + (60 + 8) + (16 + 8) + (40 + 8)
                    nrec = 4 * (11 + 4) + 8
                    first = struct.unpack('>ifif', blob[off + 4:off + 20])
                    lo = off + (self.T - 1) * (24 + nrec)
                    last = struct.unpack('>ifif', blob[lo + 4:lo + 20])
                    if (hb[0], hb[1], hb[2], hb[3]) != (
                            first[0], first[1], last[2], last[3]):
                        viol['file-header-span'] = 'header %r, records ' \
                            'begin %r end %r' % (hb, first[:2], last[2:])
                    # writing the re-read file again gives the same bytes
                    path2 = path + '.again'
                    ncf2uamiv(g, path2).close()
                    if open(path2, 'rb').read() != blob:
                        viol['rewrite'] = 'bytes differ when the re-read ' \
                            'file is written again'
                    if not np.array_equal(
                            np.array(g.variables['O3'], dtype='f').view('i4'),
                            pay.view('i4')):
                        viol['payload'] = 'float32 bit patterns differ ' \
                            'after the round trip'
                except Exception as ex:
                    viol['writer-raised:' + type(ex).__name__] = \
                        repr(ex)[:200]
                    return {'obs': {}, 'violations': viol}
            obs['tflag'] = t2.tolist()
            for t, (b, e) in enumerate(flags):
                if int(t2[t, 0]) != b[0]:
                    viol['TFLAG-date[%d]' % t] = 'wrote %r read %r' % (
                        b, t2[t].tolist())
                if int(t2[t, 1]) != b[1]:
                    viol['TFLAG-time[%d]' % t] = 'wrote %r read %r' % (
                        b, t2[t].tolist())
                if int(e2[t, 0]) != e[0]:
                    viol['ETFLAG-date[%d]' % t] = 'expected %r read %r' % (
                        e, e2[t].tolist())
                if int(e2[t, 1]) != e[1]:
                    viol['ETFLAG-time[%d]' % t] = 'expected %r read %r' % (
                        e, e2[t].tolist())
        finally:
            for fn in os.listdir(d):
                os.remove(os.path.join(d, fn))
            os.rmdir(d)
        return {'obs': obs, 'violations': viol, 'start': (self.year, j, H)}


class _GridFields(dict):
    """stand-in for the one-element structured grid-header array"""
    itemsize = 76

    def __setitem__(self, k, v):
        a = np.empty((1,), dtype=object)
        a[0] = np.asarray(v, dtype=object).reshape(-1)[0] \
            if not isinstance(v, symx.Sym) else v
        dict.__setitem__(self, k, a)

    def __missing__(self, k):
        a = np.empty((1,), dtype=object)
        a[0] = 0
        dict.__setitem__(self, k, a)
        return a


class GridHeader(Obligation):
    """the grid/projection record of the gridded writer: every field holds the
    attribute it is named after (statements `grid_hdr[...] = ...`, sliced)"""
    mode = 'real'
    validate_paths = 3
    encoding_fragile = True
    name = 'grid-header[uamiv writer]'
    bounds = {'PLON PLAT XORIG YORIG XCELL YCELL TLAT1 TLAT2':
              'reals in [-4096, 4096] (replayed as float32)',
              'IUTM CPROJ ISTAG': 'integers 0..60 / 0..3 / 0..1'}
    REALS = (('PLON', 'plon'), ('PLAT', 'plat'), ('XORIG', 'xorg'),
             ('YORIG', 'yorg'), ('XCELL', 'delx'), ('YCELL', 'dely'),
             ('TLAT1', 'tlat1'), ('TLAT2', 'tlat2'))
    INTS = (('IUTM', 'iutm', 60), ('CPROJ', 'iproj', 3),
            ('ISTAG', 'istag', 1))

    def fallback_inputs(self):
        return [{}, {'TLAT1': 45, 'TLAT2': 33, 'PLON': -97, 'PLAT': 40,
                     'CPROJ': 2, 'XCELL': 12000, 'YCELL': 12000},
                {'TLAT1': 60, 'TLAT2': 0, 'CPROJ': 3}]

    def sym(self, ctx, h):
        sp = loader.TwinSpace(objfloat='all')
        run, info = loader.slice_kernel(
            'PseudoNetCDF.camxfiles.uamiv.Write', 'ncf2uamiv',
            ['grid_hdr[]'], guards=False, space=sp,
            provided=['ncffile', 'grid_hdr'])
        self._info, self._space = info, sp
        wmod = sp.twin('PseudoNetCDF.camxfiles.uamiv.Write')
        nc = _NCF()
        nc.dimensions = {'COL': range(2), 'ROW': range(2), 'LAY': range(1),
                         'VAR': range(1), 'TSTEP': range(1)}
        vals = {}
        for att, fld in self.REALS:
            vals[att] = ctx.real(att, -4096, 4096)
            setattr(nc, att, vals[att])
        for att, fld, hi in self.INTS:
            vals[att] = ctx.int(att, 0, hi)
            setattr(nc, att, vals[att])
        env = dict(wmod.__dict__)
        env['ncffile'] = nc
        env['grid_hdr'] = _GridFields()
        try:
            out = run(env)
        except Exception as ex:
            raise loader.HarnessError('grid header slice: %r' % (ex,))
        gh = out['grid_hdr']
        for att, fld in self.REALS:
            if fld not in gh:
                raise loader.HarnessError('grid header field %s not written'
                                          % fld)
            h.claim('field:' + fld, common.eq_expr(gh[fld][0], vals[att]))
        for att, fld, hi in self.INTS:
            if fld in gh:
                h.claim('field:' + fld, common.eq_expr(gh[fld][0], vals[att]))
        for fld, n in (('nx', 2), ('ny', 2), ('nz', 1)):
            if fld in gh:
                h.claim('field:' + fld, common.eq_expr(gh[fld][0], n))
        h.observe('ok', True)

    def real(self, inputs):
        import os
        import shutil
        import tempfile
        import warnings
        vals = {}
        for att, fld in self.REALS:
            vals[att] = float(np.float32(float(frac_of(inputs.get(att, 0)))))
        for att, fld, hi in self.INTS:
            vals[att] = int(frac_of(inputs.get(att, 0)))
        viol = {}
        d = tempfile.mkdtemp(prefix='verif_c08_')
        path = os.path.join(d, 'g.uamiv')
        try:
            with warnings.catch_warnings():
                warnings.simplefilter('ignore')
                from PseudoNetCDF import PseudoNetCDFFile
                from PseudoNetCDF.camxfiles.uamiv.Write import ncf2uamiv
                from PseudoNetCDF.camxfiles.uamiv.Memmap import uamiv
                f = PseudoNetCDFFile()
                for k, n in (('TSTEP', 1), ('LAY', 1), ('ROW', 2), ('COL', 2),
                             ('VAR', 1), ('DATE-TIME', 2)):
                    f.createDimension(k, n)
                tv = f.createVariable('TFLAG', 'i', ('TSTEP', 'VAR',
                                                     'DATE-TIME'))
                tv[0, 0, :] = (2004100, 0)
                v = f.createVariable('O3', 'f', ('TSTEP', 'LAY', 'ROW',
                                                 'COL'))
                v[:] = 1.
                f.NAME, f.NOTE = 'AVERAGE   ', 'x'.ljust(60)
                f.ITZON = 0
                for k, x in vals.items():
                    setattr(f, k, x)
                f.TSTEP = 10000
                setattr(f, 'VAR-LIST', 'O3'.ljust(16))
                try:
                    ncf2uamiv(f, path).close()
                    g = uamiv(path)
                    for att, fld in self.REALS:
                        if float(getattr(g, att)) != vals[att]:
                            viol['field:' + fld] = '%s written %r read %r' % (
                                att, vals[att], float(getattr(g, att)))
                    for att, fld, hi in self.INTS:
                        if int(getattr(g, att)) != vals[att]:
                            viol['field:' + fld] = '%s written %r read %r' % (
                                att, vals[att], int(getattr(g, att)))
                except Exception as ex:
                    viol['writer-raised:' + type(ex).__name__] = \
                        repr(ex)[:200]
        finally:
            shutil.rmtree(d, ignore_errors=True)
        return {'obs': {'ok': True}, 'violations': viol, 'header': vals}

    any_violation_confirms = True


class LatBndTimeRoundTrip(TimeRoundTrip):
    """lateral-boundary writer: the statements that fill its time header
    (date/time reduction, end = begin + 1 h with day roll-over), composed
    with the reader's ConvertCAMxTime"""
    encoding_fragile = True
    replay_only_labels = ('payload', 'layout')

    def __init__(self, year, T):
        TimeRoundTrip.__init__(self, year, T, False)
        self.name = 'latbnd-time-roundtrip[%d,T=%d]' % (year, T)

    def kernel(self):
        if self._k is None:
            sp = loader.TwinSpace(objfloat='all')
            run, info = loader.slice_kernel(
                'PseudoNetCDF.camxfiles.lateral_boundary.Write',
                'ncf2lateral_boundary', ['date', 'time', 'time_hdr[]'],
                guards=False, space=sp, provided=['ncffile', 'time_hdr'])
            wmod = sp.twin('PseudoNetCDF.camxfiles.lateral_boundary.Write')
            conv = sp.twin('PseudoNetCDF.ArrayTransforms').ConvertCAMxTime
            self._k = (run, info, wmod, conv, sp)
            self._info = info
            self._space = sp
        return self._k

    def sym(self, ctx, h):
        run, info, wmod, conv, sp = self.kernel()
        sd.YEAR_RANGE = (self.year - 1, self.year + 1)
        sd.FORK_YEARS = True
        _valid_date(ctx, 'd', self.year, self.year)
        j = symx.SymInt(ctx.inputs['d_j'])
        H = ctx.int('t_H', 0, 23)
        if self.year == 2069:
            ctx.assume(ctx.inputs['d_j'] <= 364, check=False)
        flags = self._flags(j, H)
        tf = np.empty((self.T, 1, 2), dtype=object)
        for t, (b, e) in enumerate(flags):
            tf[t, 0, 0], tf[t, 0, 1] = b
        from verifx import shim
        nc = _NCF()
        nc.variables = {'TFLAG': tf.view(shim.SymNDArray)}
        nc.dimensions = {'TSTEP': range(self.T)}
        env = dict(wmod.__dict__)
        env['ncffile'] = nc
        env['time_hdr'] = _Fields()
        import sys
        sys.setprofile(sp.profile())
        try:
            try:
                out = run(env)
                th = out['time_hdr']
                args = [np.array(list(th[k]), dtype=object)
                        .view(shim.SymNDArray)
                        for k in ('ibdate', 'btime', 'iedate', 'etime')]
            except Exception as ex:
                h.candidate('writer-raised:' + type(ex).__name__,
                            repr(ex)[:200])
                return
            try:
                tflag2 = conv(args[0], args[1], 1)
                etflag2 = conv(args[2], args[3], 1)
            except Exception as ex:
                h.candidate('reader-raised:' + type(ex).__name__,
                            repr(ex)[:200])
                return
        finally:
            sys.setprofile(None)
        for t, (b, e) in enumerate(flags):
            h.claim('TFLAG-date[%d]' % t,
                    common.eq_expr(tflag2[t, 0, 0], b[0]))
            h.claim('TFLAG-time[%d]' % t,
                    common.eq_expr(tflag2[t, 0, 1], b[1]))
            h.claim('ETFLAG-date[%d]' % t,
                    common.eq_expr(etflag2[t, 0, 0], e[0]))
            h.claim('ETFLAG-time[%d]' % t,
                    common.eq_expr(etflag2[t, 0, 1], e[1]))
        h.observe('tflag', [[tflag2[t, 0, 0], tflag2[t, 0, 1]]
                            for t in range(self.T)])

    def real(self, inputs):
        """write a real lateral-boundary file with the library writer and
        read it back with the library reader"""
        import os
        import tempfile
        import warnings
        j = _g(inputs, 'd_j', 1)
        H = _g(inputs, 't_H', 0)
        flags = self._flags(j, H)
        viol, obs = {}, {}
        d = tempfile.mkdtemp(prefix='verif_c08_')
        path = os.path.join(d, 'out.bc')
        nr, ncol, nz = 3, 4, 2
        try:
            with warnings.catch_warnings():
                warnings.simplefilter('ignore')
                from PseudoNetCDF import PseudoNetCDFFile
                from PseudoNetCDF.camxfiles.lateral_boundary.Write import \
                    ncf2lateral_boundary
                from PseudoNetCDF.camxfiles.lateral_boundary.Memmap import \
                    lateral_boundary
                f = PseudoNetCDFFile()
                f.createDimension('TSTEP', self.T)
                f.createDimension('LAY', nz)
                f.createDimension('ROW', nr)
                f.createDimension('COL', ncol)
                f.createDimension('VAR', 4)
                f.createDimension('DATE-TIME', 2)
                tv = f.createVariable('TFLAG', 'i', ('TSTEP', 'VAR',
                                                     'DATE-TIME'))
                for t, (b, e) in enumerate(flags):
                    tv[t, :, 0] = b[0]
                    tv[t, :, 1] = b[1]
                rng = np.random.RandomState(5)
                data = {}
                for en, n in (('WEST', nr), ('EAST', nr), ('SOUTH', ncol),
                              ('NORTH', ncol)):
                    dn = {'WEST': 'ROW', 'EAST': 'ROW', 'SOUTH': 'COL',
                          'NORTH': 'COL'}[en]
                    v = f.createVariable(en + '_O3', 'f',
                                         ('TSTEP', dn, 'LAY'))
                    data[en] = rng.rand(self.T, n, nz).astype('f')
                    v[:] = data[en]
                f.NAME, f.NOTE = 'BOUNDARY  ', 'x'.ljust(60)
                f.ITZON, f.PLON, f.PLAT, f.IUTM = 0, 0., 0., 0
                f.XORIG, f.YORIG, f.XCELL, f.YCELL = 0., 0., 1000., 1000.
                f.CPROJ, f.TLAT1, f.TLAT2, f.ISTAG = 0, 0., 0., 0
                f.SDATE, f.STIME = flags[0][0]
                setattr(f, 'VAR-LIST', ''.join(
                    (en + '_O3').ljust(16)
                    for en in ('WEST', 'EAST', 'SOUTH', 'NORTH')))
                try:
                    ncf2lateral_boundary(f, path).close()
                except Exception as ex:
                    viol['writer-raised:' + type(ex).__name__] = \
                        repr(ex)[:200]
                    return {'obs': {}, 'violations': viol}
                # independent walk of the bytes written: record markers tile
                # the file, record sizes and data payload as the format says
                import struct
                blob = open(path, 'rb').read()
                off, sizes, bodies = 0, [], []
                while off + 8 <= len(blob):
                    n, = struct.unpack('>i', blob[off:off + 4])
                    if n < 0 or off + 8 + n > len(blob) or struct.unpack(
                            '>i', blob[off + 4 + n:off + 8 + n])[0] != n:
                        viol['layout'] = 'record markers at byte %d do ' \
                            'not frame a record' % off
                        break
                    sizes.append(n)
                    bodies.append(blob[off + 4:off + 4 + n])
                    off += n + 8
                else:
                    if off != len(blob):
                        viol['layout'] = 'trailing bytes after the last record'
                edges = (('WEST', nr), ('EAST', nr), ('SOUTH', ncol),
                         ('NORTH', ncol))
                exp = [304, 60, 16, 40] + [4 * (3 + 4 * n) for _, n in edges]
                for t in range(self.T):
                    exp.append(16)
                    exp += [4 * (12 + n * nz) for _, n in edges]
                if 'layout' not in viol and sizes != exp:
                    viol['layout'] = 'record sizes %r, format %r' % (
                        sizes[:12], exp[:12])
                if 'layout' not in viol:
                    # edge definition records: ione, edge number, cell count,
                    # then per cell (index of the first modelled cell next
                    # to the edge, 0, 0, 0); 0 for the two corner cells
                    for ei, (en, n) in enumerate(edges):
                        inner = {'WEST': 2, 'EAST': ncol - 1, 'SOUTH': 2,
                                 'NORTH': nr - 1}[en]
                        cells = []
                        for c in range(n):
                            cells += [inner if 0 < c < n - 1 else 0, 0, 0, 0]
                        want = struct.pack('>%di' % (3 + 4 * n), 1, ei + 1,
                                           n, *cells)
                        if bodies[4 + ei] != want:
                            viol['layout'] = 'definition record of the ' \
                                '%s edge differs from the format' % en
                if 'layout' not in viol:
                    k = 8
                    for t in range(self.T):
                        k += 1
                        for ei, (en, n) in enumerate(edges):
                            if bodies[k][:4] != struct.pack('>i', 1) or \
                                    bodies[k][44:48] != struct.pack(
                                        '>i', ei + 1) or bodies[k][48:] != \
                                    data[en][t].astype('>f4').tobytes():
                                viol['layout'] = 'data record %d (%s, step ' \
                                    '%d) differs from the format' % (k, en, t)
                            k += 1
                try:
                    g = lateral_boundary(path)
                    t2 = np.array(g.variables['TFLAG'][:, 0, :])
                    e2 = np.array(g.variables['ETFLAG'][:, 0, :])
                    for en in data:
                        got = np.array(g.variables[en + '_O3'][:],
                                       dtype='f')
                        if got.shape != data[en].shape or \
                                not np.array_equal(got, data[en]):
                            viol['payload'] = '%s differs after the round ' \
                                'trip' % en
                except Exception as ex:
                    viol['reader-raised:' + type(ex).__name__] = \
                        repr(ex)[:200]
                    return {'obs': {}, 'violations': viol}
            obs['tflag'] = t2.tolist()
            for t, (b, e) in enumerate(flags):
                if int(t2[t, 0]) != b[0]:
                    viol['TFLAG-date[%d]' % t] = 'wrote %r read %r' % (
                        b, t2[t].tolist())
                if int(t2[t, 1]) != b[1]:
                    viol['TFLAG-time[%d]' % t] = 'wrote %r read %r' % (
                        b, t2[t].tolist())
                if int(e2[t, 0]) != e[0]:
                    viol['ETFLAG-date[%d]' % t] = 'expected %r read %r' % (
                        e, e2[t].tolist())
                if int(e2[t, 1]) != e[1]:
                    viol['ETFLAG-time[%d]' % t] = 'expected %r read %r' % (
                        e, e2[t].tolist())
        finally:
            for fn in os.listdir(d):
                os.remove(os.path.join(d, fn))
            os.rmdir(d)
        return {'obs': obs, 'violations': viol, 'start': (self.year, j, H)}


def obligations(tier):
    obs = []
    # 1970 and 2069 are the ends of the two-digit-year window
    years = (1970, 1999, 2004, 2069) if tier == 'quick' else \
        (1970, 1971, 1999, 2000, 2003, 2004, 2068, 2069)
    for y in years:
        for T in ((1, 2) if tier == 'quick' else (1, 2, 3)):
            for et in (True, False):
                obs.append(TimeRoundTrip(y, T, et))
    # steps of a day and longer: the end of a step is days after its begin
    for st in ((24, 72) if tier == 'quick' else (6, 24, 48, 72, 240)):
        for et in (True, False):
            obs.append(TimeRoundTrip(2003, 2, et, step_h=st))
    obs.append(GridHeader())
    from . import metwrite
    obs += metwrite.obligations(tier)
    for y in years:
        obs.append(LatBndTimeRoundTrip(y, 2))
    return obs
