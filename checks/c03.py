"""C03 -- apply-along-dimension equals the numpy reduction along that axis.

Encoded: PseudoNetCDFFile.applyAlongDimensions (twin of core/_files.py, with
copyVariable/createVariable/copyDimension and the variable classes).  Data
cells are symbolic reals; mask patterns are enumerated; the reference reduction
is written in the harness over the raw symbolic lists (joint reduction over the
named axes, no numpy)."""
import fractions
import itertools

import numpy as np
import z3

from verifx import symx, loader
from verifx.symx import frac_of
from verifx.harness import Obligation
from . import common
from .common import FileSpec, VarSpec

PROPERTY = 'C03'
LEVEL = 'model_checking'
ASSUMPTIONS = [
    'floats treated as exact reals (float mode "real"); float rounding of '
    'mean/var/std is outside the claim',
    'reductions of masked object arrays are computed by the shim '
    '(sum/count of unmasked cells; min/max as z3 ite terms; std via a fresh '
    's>=0, s*s=var); unmasked reductions and apply_along_axis are numpy itself',
    'order independence is asserted for sum/min/max always and for mean on '
    'a mean over masked data along several dimensions must equal the '
    'per-axis means taken in some order of the named axes (the property '
    'does not fix the order; a joint mean is neither)',
    '1-D callables are concrete closures: np.diff, x[::2], np.convolve with '
    'fixed symmetric and asymmetric kernels (valid/same)',
    'mask patterns are enumerated, data symbolic',
]

MANIFEST = {
    'category': 'model_checking',
    'technique': 'symbolic execution of the real applyAlongDimensions source '
                 'on numpy object arrays of z3 reals; per-path SMT validity of '
                 'cell-wise equality with an independent joint reduction; '
                 'replay on the unpatched library',
    'text': 'Bounded symbolic checking: for each enumerated file shape (<= '
            '(2,3,2) quick), mask pattern, reducer (sum mean min max prod var '
            'std) or 1-D callable and each non-empty subset/order of named '
            'dimensions, z3 shows over ALL real data values that every '
            'affected variable equals the reference reduction with the axis '
            'retained, masked cells excluded, unaffected variables identical, '
            'dimension and coordinate lengths updated, and that both naming '
            'orders agree for commuting reducers.'
            ' Also: a mean over masked data along several axes equals the per-axis means in some order of the axes; named reducers along length-1 dimensions of IOAPI files; median (a reducer that is not an array method) through reduce_dim on a masked variable.',
    'note': 'Trusted: z3 (non-linear real arithmetic for var/std/prod), the '
            'shim reductions for masked object arrays (validated per path '
            'against real numpy on a sample model), numpy itself otherwise.',
}

KERN_SYM = [fractions.Fraction(1, 2), fractions.Fraction(1, 2)]
KERN_ASYM = [fractions.Fraction(3, 4), fractions.Fraction(1, 4)]
KERN3 = [fractions.Fraction(1, 4), fractions.Fraction(1, 2),
         fractions.Fraction(1, 4)]


def _conv(kern, mode, symbolic):
    kf = [float(k) for k in kern]

    def f(x):
        if symbolic:
            return np.convolve(np.array(kf, dtype=object), x, mode)
        return np.convolve(kf, x, mode)
    return f


def callables(symbolic):
    return {
        'diff': lambda x: np.diff(x),
        'sub2': lambda x: x[::2],
        'conv_valid': _conv(KERN_SYM, 'valid', symbolic),
        'conv_asym': _conv(KERN_ASYM, 'valid', symbolic),
        'conv3_same': _conv(KERN3, 'same', symbolic),
    }


def ref_lane(func, vals, masks):
    """reference 1-D function on a lane: returns (values, masks).  vals are
    raw scalars (symbolic or Fractions), masks bools."""
    n = len(vals)
    live = [v for v, m in zip(vals, masks) if not m]
    if func in ('sum', 'mean', 'min', 'max', 'prod', 'var', 'std', 'ptp'):
        if not live:
            return [0], [True]
        if func == 'sum':
            r = live[0]
            for b in live[1:]:
                r = r + b
        elif func == 'prod':
            r = live[0]
            for b in live[1:]:
                r = r * b
        elif func == 'mean':
            r = live[0]
            for b in live[1:]:
                r = r + b
            r = r / len(live)
        elif func in ('min', 'max', 'ptp'):
            r = ('minmax', func, live)
        elif func in ('var', 'std'):
            mu = live[0]
            for b in live[1:]:
                mu = mu + b
            mu = mu / len(live)
            r = (live[0] - mu) * (live[0] - mu)
            for b in live[1:]:
                r = r + (b - mu) * (b - mu)
            r = r / len(live)
            if func == 'std':
                r = ('sqrt', r)
        return [r], [False]
    if func == 'median':
        if not live:
            return [0], [True]
        if len(live) == 1:
            return [live[0]], [False]
        if len(live) == 2:
            return [(live[0] + live[1]) / 2], [False]
        if len(live) == 3:
            return [('median3', live)], [False]
        raise NotImplementedError('median of %d values' % len(live))
    if func == 'diff':
        return ([vals[i + 1] - vals[i] for i in range(n - 1)],
                [masks[i] or masks[i + 1] for i in range(n - 1)])
    if func == 'sub2':
        return vals[::2], masks[::2]
    if func in ('conv_valid', 'conv_asym'):
        k = KERN_SYM if func == 'conv_valid' else KERN_ASYM
        # np.convolve(k, x, 'valid')[i] = k[0]*x[i+1] + k[1]*x[i]
        return ([k[0] * vals[i + 1] + k[1] * vals[i] for i in range(n - 1)],
                [masks[i] or masks[i + 1] for i in range(n - 1)])
    if func == 'conv3_same':
        k = KERN3
        out, om = [], []
        full = []
        fm = []
        for j in range(n + 2):  # full convolution of length n+3-1
            acc = 0
            mm = False
            for t in range(3):
                i = j - t
                if 0 <= i < n:
                    acc = acc + k[t] * vals[i]
                    mm = mm or masks[i]
            full.append(acc)
            fm.append(mm)
        # mode same with len(k)=3 <= n: centred, length max(n,3)
        L = max(n, 3)
        start = (len(full) - L) // 2
        return full[start:start + L], fm[start:start + L]
    raise KeyError(func)


def match_expr(got, exp):
    """z3 formula: library value equals the reference value"""
    if isinstance(exp, tuple) and exp[0] == 'minmax':
        _, kind, live = exp
        if kind == 'ptp':
            raise NotImplementedError
        le = []
        for v in live:
            d = (got <= v) if kind == 'min' else (got >= v)
            le.append(symx._b(d) if not isinstance(d, (bool, np.bool_))
                      else z3.BoolVal(bool(d)))
        eq = [common.eq_expr(got, v) for v in live]
        return z3.And(z3.And(*le), z3.Or(*eq))
    if isinstance(exp, tuple) and exp[0] == 'median3':
        live = exp[1]

        def zb(d):
            return symx._b(d) if not isinstance(d, (bool, np.bool_)) \
                else z3.BoolVal(bool(d))
        le = z3.Sum(*[z3.If(zb(v <= got), 1, 0) for v in live])
        ge = z3.Sum(*[z3.If(zb(v >= got), 1, 0) for v in live])
        eq = [common.eq_expr(got, v) for v in live]
        return z3.And(z3.Or(*eq), le >= 2, ge >= 2)
    if isinstance(exp, tuple) and exp[0] == 'sqrt':
        g = got
        if isinstance(g, symx.Sym):
            ge = g.e
        else:
            ge = symx._rv(g)
        r = exp[1]
        re_ = r.e if isinstance(r, symx.Sym) else symx._rv(r)
        defs = getattr(symx.cur(), 'sqrt_defs', {}) if symx.CUR else {}
        if isinstance(g, symx.Sym) and g.e.get_id() in defs:
            # got = sqrt(radicand) by construction: radicand == reference
            # (a polynomial identity) implies got == sqrt(reference)
            return defs[g.e.get_id()][1] == re_
        return z3.And(ge >= 0, ge * ge == re_)
    return common.eq_expr(got, exp)


COMMUTING = ('sum', 'min', 'max', 'prod')


class Apply(common.SpaceMixin, Obligation):
    mode = 'real'
    validate_paths = 8
    timeout_ms = 30000
    stubs = ('pncwarn.warn (recorder)',)
    obs_tol = 1e-6

    def __init__(self, spec, dimfuncs, tag=''):
        self.spec = spec
        self.dimfuncs = list(dimfuncs)  # ordered (dim, func)
        ks = ','.join('%s=%s' % df for df in self.dimfuncs)
        self.name = 'apply[%s|%s%s]' % (spec.label, ks, tag)
        self.bounds = {'shape': [d[1] for d in spec.dims],
                       'variables': [(v.name, v.dims, v.masked)
                                     for v in spec.vars],
                       'dimfuncs': ks, 'data': 'unbounded reals'}

    def _kw(self, symbolic, order=None):
        cs = callables(symbolic)
        kw = {}
        for d, f in (order or self.dimfuncs):
            kw[d] = cs.get(f, f)
        return kw

    def reference(self, src):
        """joint reference: reduce over the named axes of each variable"""
        funcs = dict(self.dimfuncs)
        ref = {}
        newlens = dict((d[0], d[1]) for d in self.spec.dims)
        for d, f in self.dimfuncs:
            n = self.spec.dimlen(d)
            vals, _ = ref_lane(f, list(range(n)), [False] * n)
            newlens[d] = len(vals)
        for v in self.spec.vars:
            data, mask = src[v.name]
            axes = [i for i, d in enumerate(v.dims) if d in funcs]
            if not axes:
                ref[v.name] = (v.dims, data, mask)
                continue
            if mask.any() and any(funcs[v.dims[i]].startswith('conv')
                                  for i in axes):
                # np.convolve itself ignores masks (uses the data under
                # them): nothing well-defined to compare against
                ref[v.name] = None
                continue
            fs = set(funcs[v.dims[i]] for i in axes)
            joint = len(axes) > 1 and len(fs) == 1 and \
                list(fs)[0] in ('sum', 'min', 'max', 'prod', 'mean')
            orders = [axes]
            if joint and list(fs)[0] == 'mean' and mask.any():
                # a mean over masked data does not commute and the property
                # does not fix the order of the axes: the result must be the
                # per-axis means taken in SOME order of the named axes
                joint = False
                orders = [list(p) for p in itertools.permutations(axes)]
            if joint:
                f = list(fs)[0]
                oshape = [1 if i in axes else s
                          for i, s in enumerate(data.shape)]
                rd = np.empty(oshape, dtype=object)
                rm = np.zeros(oshape, dtype=bool)
                for oidx in np.ndindex(*oshape):
                    cells = []
                    ms = []
                    rng = [range(data.shape[i]) if i in axes else [oidx[i]]
                           for i in range(data.ndim)]
                    for sidx in itertools.product(*rng):
                        cells.append(data[sidx])
                        ms.append(bool(mask[sidx]))
                    r, m = ref_lane(f, cells, ms)
                    rd[oidx] = r[0]
                    rm[oidx] = m[0]
                ref[v.name] = (v.dims, rd, rm)
                continue
            # sequential, first axis first (every order for a masked mean)
            alts = []
            for order in orders:
                cd, cm = data, mask
                for i in order:
                    f = funcs[v.dims[i]]
                    d2 = np.moveaxis(cd, i, -1)
                    m2 = np.moveaxis(cm, i, -1)
                    lead = d2.shape[:-1]
                    rows = []
                    mrows = []
                    for lidx in np.ndindex(*lead):
                        r, m = ref_lane(f, list(d2[lidx]),
                                        [bool(x) for x in m2[lidx]])
                        rows.append(r)
                        mrows.append(m)
                    L = len(rows[0]) if rows else 0
                    nd = np.empty(lead + (L,), dtype=object)
                    nm = np.zeros(lead + (L,), dtype=bool)
                    for k, lidx in enumerate(np.ndindex(*lead)):
                        for j in range(L):
                            nd[lidx + (j,)] = rows[k][j]
                            nm[lidx + (j,)] = mrows[k][j]
                    cd = np.moveaxis(nd, -1, i)
                    cm = np.moveaxis(nm, -1, i)
                alts.append((cd, cm))
            ref[v.name] = (v.dims, alts[0][0], alts[0][1])
            if len(alts) > 1:
                self._alts = getattr(self, '_alts', {})
                self._alts[v.name] = alts
        return ref, newlens

    def _claims(self, out, src, claim, tol=None, h=None, tag=''):
        ref, newlens = self.reference(src)
        spec = self.spec
        obs = {}
        for d, n in newlens.items():
            got = len(out.dimensions[d]) if d in out.dimensions else None
            obs['len_' + d] = got
            claim(tag + 'dimlen:' + d, z3.BoolVal(got == n))
        unl = dict((d[0], d[2]) for d in spec.dims)
        claim(tag + 'well-formed',
              z3.BoolVal(not common.wf_problems(out, unl)))
        claim(tag + 'variables-present', z3.BoolVal(
            list(out.variables.keys()) == [v.name for v in spec.vars]))
        for v in spec.vars:
            if v.name not in out.variables or ref.get(v.name) is None:
                continue
            ov = out.variables[v.name]
            edims, ed, em = ref[v.name]
            claim(tag + 'dims:' + v.name,
                  z3.BoolVal(tuple(ov.dimensions) == tuple(edims)))
            okattr = all(getattr(ov, k, None) == a
                         for k, a in v.attrs.items())
            claim(tag + 'attrs:' + v.name, z3.BoolVal(okattr))
            obs['shape_' + v.name] = list(ov.shape)
            if tuple(ov.shape) != tuple(ed.shape):
                claim(tag + 'shape:' + v.name, z3.BoolVal(False))
                continue
            gm = common.getmask(ov)
            gd = common.getdata(ov)
            obs['mask_' + v.name] = gm.astype(int).ravel().tolist()
            obs['data_' + v.name] = [None if m else x for x, m in
                                     zip(gd.ravel().tolist(),
                                         gm.ravel().tolist())]
            alts = getattr(self, '_alts', {}).get(v.name) or [(ed, em)]
            # (one reference, or for a masked mean along several axes the
            # per-axis result in each order of the axes)
            both = []
            for ad, am in alts:
                eqs = [z3.BoolVal(bool((gm == am).all()))]
                for idx in np.ndindex(*ad.shape):
                    if am[idx] or gm[idx]:
                        continue
                    if tol is None:
                        eqs.append(match_expr(gd[idx], ad[idx]))
                    else:
                        eqs.append(z3.BoolVal(_close(gd[idx], ad[idx], tol)))
                both.append(z3.And(*eqs))
            if len(alts) == 1:
                claim(tag + 'mask:' + v.name,
                      z3.BoolVal(bool((gm == em).all())))
            claim(tag + 'data:' + v.name, z3.Or(*both))
        if h is not None:
            for k, val in obs.items():
                h.observe(tag + k, val)
        return obs

    def sym(self, ctx, h):
        sp = self.space()
        F = sp.twin('PseudoNetCDF.core._files').PseudoNetCDFFile
        vals = common.sym_values(ctx, self.spec)
        f = common.build(F, self.spec, vals, True)
        src = common.source_arrays(self.spec, vals, True)
        try:
            out = self.profiled(f.applyAlongDimensions, **self._kw(True))
        except Exception as ex:
            h.candidate('in-domain-call-raised:' + type(ex).__name__,
                        repr(ex)[:200])
            return
        self._claims(out, src, h.claim, None, h)
        if len(self.dimfuncs) > 1:
            fs = set(f_ for _, f_ in self.dimfuncs)
            anymask = any(v.masked for v in self.spec.vars)
            if len(fs) == 1 and (list(fs)[0] in COMMUTING or (
                    list(fs)[0] == 'mean' and not anymask)):
                try:
                    out2 = f.applyAlongDimensions(
                        **self._kw(True, self.dimfuncs[::-1]))
                except Exception as ex:
                    h.candidate('rev:in-domain-call-raised:' +
                                type(ex).__name__, repr(ex)[:200])
                    return
                self._claims(out2, src, h.claim, None, h, 'rev:')

    def real(self, inputs):
        import warnings
        RF = common.real_files()
        vals = common.concrete_values(self.spec, inputs)
        f = common.build(RF.PseudoNetCDFFile, self.spec, vals, False)
        fvals = dict((k, fractions.Fraction(v)) for k, v in vals.items())
        src = common.source_arrays(self.spec, fvals, False)
        viol = {}

        def claim(label, e):
            if not z3.is_true(z3.simplify(e)):
                viol[label] = 'reference reduction differs (%s)' % label
        obs = {}
        with warnings.catch_warnings():
            warnings.simplefilter('ignore')
            with np.errstate(all='ignore'):
                try:
                    out = f.applyAlongDimensions(**self._kw(False))
                except Exception as ex:
                    viol['in-domain-call-raised:' + type(ex).__name__] = \
                        repr(ex)[:200]
                    return {'obs': {}, 'violations': viol}
                obs.update(self._claims(out, src, claim, 1e-9))
                if len(self.dimfuncs) > 1:
                    fs = set(f_ for _, f_ in self.dimfuncs)
                    anymask = any(v.masked for v in self.spec.vars)
                    if len(fs) == 1 and (list(fs)[0] in COMMUTING or (
                            list(fs)[0] == 'mean' and not anymask)):
                        try:
                            out2 = f.applyAlongDimensions(
                                **self._kw(False, self.dimfuncs[::-1]))
                            o2 = self._claims(out2, src, claim, 1e-9,
                                              None, 'rev:')
                            obs.update(('rev:' + k, v)
                                       for k, v in o2.items())
                        except Exception as ex:
                            viol['rev:in-domain-call-raised:' +
                                 type(ex).__name__] = repr(ex)[:200]
        return {'obs': obs, 'violations': viol}


class ApplyStr(Apply):
    """string forms used by the command line: core/_functions.py
    reduce_dim ('dim,func') and convolve_dim ('dim,mode,w0,w1,...')"""
    twin_modules = ('PseudoNetCDF.core._files',
                    'PseudoNetCDF.core._functions')

    def __init__(self, spec, which, dim, func):
        Apply.__init__(self, spec, [(dim, func)])
        self.which = which
        self.name = '%s[%s|%s,%s]' % (which, spec.label, dim, func)
        if which == 'convolve_dim':
            kern, mode = {'conv_valid': (KERN_SYM, 'valid'),
                          'conv_asym': (KERN_ASYM, 'valid'),
                          'conv3_same': (KERN3, 'same')}[func]
            self.text = '%s,%s,%s' % (dim, mode, ','.join(
                repr(float(k)) for k in kern))
        else:
            self.text = '%s,%s' % (dim, func)

    def sym(self, ctx, h):
        sp = self.space()
        F = sp.twin('PseudoNetCDF.core._files').PseudoNetCDFFile
        fn = getattr(sp.twin('PseudoNetCDF.core._functions'), self.which)
        vals = common.sym_values(ctx, self.spec)
        f = common.build(F, self.spec, vals, True)
        src = common.source_arrays(self.spec, vals, True)
        try:
            out = self.profiled(fn, f, self.text)
        except Exception as ex:
            h.candidate('in-domain-call-raised:' + type(ex).__name__,
                        repr(ex)[:200])
            return
        self._claims(out, src, h.claim, None, h)

    def real(self, inputs):
        import warnings
        RF = common.real_files()
        from PseudoNetCDF.core import _functions as RFN
        vals = common.concrete_values(self.spec, inputs)
        f = common.build(RF.PseudoNetCDFFile, self.spec, vals, False)
        fvals = dict((k, fractions.Fraction(v)) for k, v in vals.items())
        src = common.source_arrays(self.spec, fvals, False)
        viol = {}

        def claim(label, e):
            if not z3.is_true(z3.simplify(e)):
                viol[label] = 'reference differs (%s)' % label
        with warnings.catch_warnings():
            warnings.simplefilter('ignore')
            with np.errstate(all='ignore'):
                try:
                    out = getattr(RFN, self.which)(f, self.text)
                except Exception as ex:
                    viol['in-domain-call-raised:' + type(ex).__name__] = \
                        repr(ex)[:200]
                    return {'obs': {}, 'violations': viol}
                obs = self._claims(out, src, claim, 1e-6)
        return {'obs': obs, 'violations': viol, 'call': self.text}


def _close(got, exp, tol):
    import math
    try:
        g = float(got)
    except Exception:
        return False
    if isinstance(exp, tuple) and exp[0] == 'minmax':
        live = [float(x) for x in exp[2]]
        e = min(live) if exp[1] == 'min' else max(live)
    elif isinstance(exp, tuple) and exp[0] == 'median3':
        e = sorted(float(x) for x in exp[1])[1]
    elif isinstance(exp, tuple) and exp[0] == 'sqrt':
        e = math.sqrt(float(exp[1]))
    else:
        e = float(exp)
    return abs(g - e) <= tol * max(1.0, abs(g), abs(e))


def _specs(tier):
    A = {'units': 'ppb'}
    s1 = FileSpec([('t', 2, True), ('x', 3, False)], [
        VarSpec('x', ('x',), attrs={'units': 'm'}, coord=True),
        VarSpec('A', ('t', 'x'), attrs=A),
        VarSpec('M', ('t', 'x'), masked=(1, 3)),
        # rows with different numbers of live cells
        VarSpec('U', ('t', 'x'), masked=(1,)),
        VarSpec('T', ('t',)),
    ], attrs={'title': 'test'}, label='t2x3')
    s2 = FileSpec([('t', 2, True), ('y', 3, False), ('x', 2, False)], [
        VarSpec('A', ('t', 'y', 'x'), attrs=A),
        VarSpec('B', ('y', 'x')),
        VarSpec('M', ('t', 'y'), masked=(0, 1, 2, 4)),
        VarSpec('y', ('y',), coord=True),
    ], label='t2y3x2')
    s3 = FileSpec([('z', 1, False), ('x', 4, False)], [
        VarSpec('A', ('z', 'x')),
        VarSpec('z', ('z',), coord=True),
        VarSpec('M', ('x', 'z'), masked=(2,)),
    ], label='z1x4')
    specs = [s1, s2, s3]
    if tier == 'thorough':
        specs.append(FileSpec(
            [('t', 3, True), ('z', 3, False), ('y', 2, False),
             ('x', 2, False)],
            [VarSpec('A', ('t', 'z', 'y', 'x')),
             VarSpec('M', ('z', 'x'), masked=(0, 2, 3)),
             VarSpec('z', ('z',), coord=True)], label='t3z3y2x2'))
    return specs


class IoapiLen1(Obligation):
    """named reducers along a length-1 dimension of an IOAPI file (the IOAPI
    class overrides applyAlongDimensions): mean/min/max/sum give the value
    back, var/std give zero -- data symbolic"""
    mode = 'real'
    validate_paths = 2
    stubs = ('datetime (symdatetime)',)

    def __init__(self, dim, red):
        self.dim, self.red = dim, red
        self.name = 'ioapi-apply[%s=%s on a length-1 dimension]' % (dim, red)
        self.bounds = {'dims': 'TSTEP 2 (1 when reduced), LAY/ROW/COL 1..2'}
        self._space = None

    def _shape(self):
        shp = {'TSTEP': 2, 'LAY': 2, 'ROW': 1, 'COL': 2}
        shp[self.dim] = 1
        return shp

    def _build(self, IO, vals, symbolic):
        shp = self._shape()
        f = IO()
        f.createDimension('TSTEP', shp['TSTEP']).setunlimited(True)
        for k in ('LAY', 'ROW', 'COL'):
            f.createDimension(k, shp[k])
        f.SDATE, f.STIME, f.TSTEP = 2004100, 0, 10000
        f.XORIG, f.YORIG, f.XCELL, f.YCELL = 0., 0., 1000., 1000.
        f.VGLVLS = np.linspace(1, 0, shp['LAY'] + 1).astype('f')
        f.VGTOP = 5000.
        v = f.createVariable('O3', 'O' if symbolic else 'd',
                             ('TSTEP', 'LAY', 'ROW', 'COL'), units='ppmV')
        k = 0
        for idx in np.ndindex(*v.shape):
            v[idx] = vals[k]
            k += 1
        f.updatemeta()
        return f

    def _go(self, f, vals, claim, symbolic):
        out = f.applyAlongDimensions(**{self.dim: self.red})
        got = common.getdata(out.variables['O3'])
        src_shape = tuple(self._shape()[k]
                          for k in ('TSTEP', 'LAY', 'ROW', 'COL'))
        claim('shape', z3.BoolVal(tuple(got.shape) == src_shape))
        if tuple(got.shape) != src_shape:
            return
        eqs = []
        for k, idx in enumerate(np.ndindex(*src_shape)):
            exp = 0 if self.red in ('var', 'std') else vals[k]
            eqs.append(common.eq_expr(got[idx], exp) if symbolic else
                       common.close_expr(got[idx], exp, 1e-12))
        claim('values', z3.And(*eqs))

    def sym(self, ctx, h):
        from verifx import symdatetime as sd
        if self._space is None:
            self._space = loader.TwinSpace(stubs={
                'PseudoNetCDF.pncwarn': common.warn_stub(common.WarnRec()),
                'datetime': sd.make_module()}, objfloat='all')
        sp = self._space
        IO = sp.twin('PseudoNetCDF.cmaqfiles._ioapi').ioapi_base
        n = int(np.prod(list(self._shape().values())))
        vals = [ctx.real('v%d' % i) for i in range(n)]
        sd.YEAR_RANGE = (2003, 2005)
        import sys
        sys.setprofile(sp.profile())
        try:
            try:
                f = self._build(IO, vals, True)
                self._go(f, vals, h.claim, True)
            except Exception as ex:
                h.candidate('raised:' + type(ex).__name__, repr(ex)[:200])
        finally:
            sys.setprofile(None)

    def real(self, inputs):
        import warnings
        with warnings.catch_warnings():
            warnings.simplefilter('ignore')
            from PseudoNetCDF.cmaqfiles._ioapi import ioapi_base as IO
        n = int(np.prod(list(self._shape().values())))
        vals = [float(frac_of(inputs.get('v%d' % i, i + 1)))
                for i in range(n)]
        viol = {}

        def claim(label, e):
            if not z3.is_true(z3.simplify(e)):
                viol[label] = 'differs (%s)' % label
        try:
            with warnings.catch_warnings():
                warnings.simplefilter('ignore')
                with np.errstate(all='ignore'):
                    f = self._build(IO, vals, False)
                    self._go(f, vals, claim, False)
        except Exception as ex:
            viol['raised:' + type(ex).__name__] = repr(ex)[:200]
        return {'obs': {}, 'violations': viol}


def obligations(tier):
    obs = []
    reducers = ['sum', 'mean', 'min', 'max', 'prod', 'var', 'std']
    calls = ['diff', 'sub2', 'conv_valid', 'conv_asym', 'conv3_same']
    for spec in _specs(tier):
        dims = [d[0] for d in spec.dims]
        for d in dims:
            n = spec.dimlen(d)
            for r in reducers:
                obs.append(Apply(spec, [(d, r)]))
            for c in calls:
                if c == 'conv3_same' and n < 3:
                    continue
                if c in ('diff', 'conv_valid', 'conv_asym') and n < 2:
                    continue
                obs.append(Apply(spec, [(d, c)]))
        for d1, d2 in itertools.combinations(dims, 2):
            for r in ('sum', 'mean', 'min', 'max') + (
                    ('prod',) if tier == 'thorough' else ()):
                obs.append(Apply(spec, [(d1, r), (d2, r)]))
            if spec.dimlen(d1) >= 2 and spec.dimlen(d2) >= 2:
                obs.append(Apply(spec, [(d1, 'diff'), (d2, 'sub2')]))
                obs.append(Apply(spec, [(d1, 'mean'), (d2, 'conv_valid')]))
        if len(dims) >= 3:
            for r in ('sum', 'max'):
                obs.append(Apply(spec, [(d, r) for d in dims]))
    # a reducer that is not an array method (looked up in numpy.ma / numpy):
    # sorting forks on every comparison, so a single lane per variable
    med = FileSpec([('t', 3, True), ('x', 1, False)], [
        VarSpec('A', ('t', 'x'), attrs={'units': 'ppb'}),
        VarSpec('M', ('t', 'x'), masked=(1,)),
    ], attrs={'title': 'test'}, label='t3x1')
    obs.append(ApplyStr(med, 'reduce_dim', 't', 'median'))
    # command-line string forms
    for spec in _specs(tier)[:2]:
        for d in [x[0] for x in spec.dims]:
            for r in ('sum', 'mean', 'min', 'max', 'std'):
                obs.append(ApplyStr(spec, 'reduce_dim', d, r))
            for c in ('conv_valid', 'conv_asym', 'conv3_same'):
                if c == 'conv3_same' and spec.dimlen(d) < 3:
                    continue
                obs.append(ApplyStr(spec, 'convolve_dim', d, c))
    for dim in ('LAY', 'ROW', 'TSTEP'):
        for red in (('std', 'mean') if tier == 'quick' else
                    ('std', 'var', 'mean', 'max', 'sum')):
            obs.append(IoapiLen1(dim, red))
    return obs
