"""Writers of the header-less CAMx meteorological formats (one3d = humidity /
vertical_diffusivity, temperature, height_pressure) -- used by C08 (time-flag
and payload round trip) and C09 (writer -> reference layout).

The real writer function is executed in the twin with
  * the builtin open() of its module replaced by a byte sink that records
    every write (real bytes and the symbolic items ndarray.tobytes()/tofile()
    stand for),
  * TFLAG holding symbolic YYYYJJJ/HHMMSS flags (hourly steps from a symbolic
    day of year and hour of an enumerated year), data concrete float32.
The word sequence the sink received is compared with the reference layout
(checks/layouts.py: MetLayout): every record [marker][time f HHMM][date i
YYJJJ][cells f][marker]; then the reader's time reconstruction (the real
ArrayTransforms.ConvertCAMxTime, as all met Memmap readers call it) is applied
to the written (date, time) words and must give back the flags."""
import os
import struct
import tempfile

import numpy as np
import z3

from verifx import symx, loader, shim, symdatetime as sd
from verifx.harness import Obligation
from . import common, layouts
from .c11 import _flag
from .c12 import _valid_date, _g

WRITERS = {
    'one3d': ('PseudoNetCDF.camxfiles.one3d.Write', 'ncf2one3d',
              'PseudoNetCDF.camxfiles.one3d.Memmap', 'one3d'),
    'temperature': ('PseudoNetCDF.camxfiles.temperature.Write',
                    'ncf2temperature',
                    'PseudoNetCDF.camxfiles.temperature.Memmap',
                    'temperature'),
    'height_pressure': ('PseudoNetCDF.camxfiles.height_pressure.Write',
                        'ncf2height_pressure',
                        'PseudoNetCDF.camxfiles.height_pressure.Memmap',
                        'height_pressure'),
    'wind': ('PseudoNetCDF.camxfiles.wind.Write', 'ncf2wind',
             'PseudoNetCDF.camxfiles.wind.Memmap', 'wind'),
    'cloud_rain': ('PseudoNetCDF.camxfiles.cloud_rain.Write',
                   'ncf2cloud_rain',
                   'PseudoNetCDF.camxfiles.cloud_rain.Memmap', 'cloud_rain'),
}
CR_KEYS = ['CLOUD', 'RAIN', 'SNOW', 'GRAUPEL', 'COD']
CR_DESC = 'cloud/rain file 4.3+'          # 20 characters


class _NC(object):
    pass


class _NPProxy(object):
    def __init__(self, real, array):
        self._real, self.array = real, array

    def __getattr__(self, k):
        return getattr(self._real, k)


class MetWrite(Obligation):
    mode = 'int'
    validate_paths = 3
    max_paths = 200
    timeout_ms = 60000
    stubs = ('open() of the writer module (byte sink)',
             'ndarray.tobytes/tofile of symbolic cells (typed items)',
             'datetime reference (symdatetime calendar tables)')
    any_violation_confirms = True

    def __init__(self, fmt, year, T, nz, rows, cols):
        self.fmt, self.year, self.T = fmt, year, T
        self.nz, self.rows, self.cols = nz, rows, cols
        self.name = 'met-write[%s,%d,T=%d,nz=%d,rows=%d,cols=%d]' % (
            fmt, year, T, nz, rows, cols)
        self.bounds = {'year': year, 'T': T, 'nz': nz, 'rows': rows,
                       'cols': cols, 'start': 'any day of year, any hour'}

    def _seq(self):
        if self.fmt == 'wind':
            return [x for k in range(self.nz) for x in (('U', k), ('V', k))]
        if self.fmt == 'cloud_rain':
            return [(v, k) for k in range(self.nz) for v in CR_KEYS]
        return layouts.MetLayout.KINDS[self.fmt](self.nz)

    def _expected(self, flags, data):
        """[(label, [expected words])]: an expected word is an int (bit
        pattern), ('f', value) or ('i', value) for the typed time/date words"""
        cells = self.rows * self.cols
        m = 4 * (cells + 2)
        out = []

        def bits(cell):
            return list(struct.unpack('>%di' % cells,
                                      np.asarray(cell).astype('>f4')
                                      .tobytes()))
        if self.fmt == 'cloud_rain':
            out.append(('record[file-header]',
                        [len(CR_DESC) + 12] + list(struct.unpack(
                            '>5i', CR_DESC.encode())) +
                        [self.cols, self.rows, self.nz, len(CR_DESC) + 12]))
        for t, (d, hms) in enumerate(flags):
            yy = d // 1000 % 100 * 1000 + d % 1000
            hhmm = ('f', hms, 100)
            if self.fmt == 'cloud_rain':
                out.append(('record[t=%d,header]' % t,
                            [8, hhmm, ('i', yy, 1), 8]))
                for var, k in self._seq():
                    out.append(('record[t=%d,%s,%s]' % (t, var, k),
                                [4 * cells] + bits(data[var][t, k]) +
                                [4 * cells]))
                continue
            if self.fmt == 'wind':
                out.append(('record[t=%d,header]' % t,
                            [12, hhmm, ('i', yy, 1), 0, 12]))
                for var, k in self._seq():
                    out.append(('record[t=%d,%s,%s]' % (t, var, k),
                                [4 * cells] + bits(data[var][t, k]) +
                                [4 * cells]))
                out.append(('record[t=%d,dummy]' % t, [4, 0, 4]))
                continue
            for var, k in self._seq():
                cell = data[var][t] if k is None else data[var][t, k]
                out.append(('record[t=%d,%s,%s]' % (t, var, k),
                            [m, hhmm, ('i', yy, 1)] + bits(cell) + [m]))
        return out

    def _data(self):
        rng = np.random.RandomState(17)
        out = {}
        for var, k in self._seq():
            if var not in out:
                shp = (self.T, self.rows, self.cols) if k is None else \
                    (self.T, self.nz, self.rows, self.cols)
                a = (rng.rand(*shp) * 300).astype('f')
                # special bit patterns travel as plain copies: a slab of
                # negative zeros, a denormal
                a[0, ...] = 0.0
                a[0].reshape(-1)[:self.rows * self.cols] = -0.0
                flat = a.reshape(-1)
                if flat.size > 1:
                    flat[-1] = np.float32(1e-45)
                out[var] = a
        return out

    def _flags(self, j, H):
        out = []
        for t in range(self.T):
            y, jj, hms = _flag(self.year, j, H, 0, t * 3600)
            out.append((y * 1000 + jj, hms))
        return out

    # ------------------------------------------------------------------
    def sym(self, ctx, h):
        wmod, wfn, rmod, rcls = WRITERS[self.fmt]
        sp = loader.TwinSpace(objfloat='all')
        self._space = sp
        W = sp.twin(wmod)
        conv = sp.twin('PseudoNetCDF.ArrayTransforms').ConvertCAMxTime
        sd.YEAR_RANGE = (self.year - 1, self.year + 1)
        sd.FORK_YEARS = True
        _valid_date(ctx, 'd', self.year, self.year)
        j = symx.SymInt(ctx.inputs['d_j'])
        H = ctx.int('t_H', 0, 23)
        if self.year == 2069:
            ctx.assume(ctx.inputs['d_j'] <= 364, check=False)
        flags = self._flags(j, H)
        tf = np.empty((self.T, 1, 2), dtype=object)
        for t, (d, hms) in enumerate(flags):
            tf[t, 0, 0], tf[t, 0, 1] = d, hms
        data = self._data()
        nc = _NC()
        nc.variables = {'TFLAG': tf.view(shim.SymNDArray)}
        for k, v in data.items():
            nc.variables[k] = v.view(shim.SymNDArray)
        if self.fmt == 'wind':
            nc.LSTAGGER = np.array(0, dtype='>i4')
            nc.dimensions = {'LAY': range(self.nz)}
        if self.fmt == 'cloud_rain':
            nc.FILEDESC = CR_DESC
            nc.dimensions = {'LAY': range(self.nz), 'ROW': range(self.rows),
                             'COL': range(self.cols)}
        sink = shim.ByteSink()
        W.open = lambda path, mode='wb': sink

        # arrays the writer creates itself must be able to write to the sink
        def _arr(real):
            def f(*a, **k):
                r = real(*a, **k)
                if type(r) is np.ndarray:
                    r = r.view(shim.SymNDArray)
                return r
            return f
        if 'array' in W.__dict__:
            W.array = _arr(W.__dict__['array'])
        if 'np' in W.__dict__ and not isinstance(W.np, _NPProxy):
            W.np = _NPProxy(W.np, _arr(W.np.array))
        import sys
        sys.setprofile(sp.profile())
        try:
            try:
                getattr(W, wfn)(nc, 'symbolic-path')
            except Exception as ex:
                h.candidate('writer-raised:' + type(ex).__name__,
                            repr(ex)[:200])
                return
            words = sink.words()
            exp = self._expected(flags, data)
            total = sum(len(w) for _, w in exp)
            ok = words is not None and len(words) == total
            h.claim('file-size', z3.BoolVal(bool(ok)))
            if not ok:
                return
            dates, times = [], []
            pos = 0
            for lab, ew in exp:
                w = words[pos:pos + len(ew)]
                pos += len(ew)
                plain_ok = True
                for got, want in zip(w, ew):
                    if isinstance(want, tuple):
                        kind, val, scale = want
                        dt = np.dtype('>f4' if kind == 'f' else '>i4')
                        okk = isinstance(got, tuple) and \
                            np.dtype(got[0]) == dt
                        part = 'time' if kind == 'f' else 'date'
                        h.claim(lab + ':' + part, z3.And(
                            z3.BoolVal(bool(okk)), common.eq_expr(
                                got[1] * scale, val) if okk
                            else z3.BoolVal(False)))
                        if okk:
                            (times if kind == 'f' else dates).append(got[1])
                    elif isinstance(got, tuple) or got != want:
                        plain_ok = False
                h.claim(lab + ':markers-and-payload', z3.BoolVal(plain_ok))
            # one (date, time) pair per step for the reader side
            per = len(dates) // self.T if self.T else 0
            dates, times = dates[::per or 1], times[::per or 1]
            if len(dates) != self.T:
                return
            # the reader's reconstruction of the time flags
            try:
                da = np.empty(self.T, dtype=object)
                ta = np.empty(self.T, dtype=object)
                da[:], ta[:] = dates, times
                tf2 = conv(da.view(shim.SymNDArray),
                           ta.view(shim.SymNDArray), 1)
            except Exception as ex:
                h.candidate('reader-raised:' + type(ex).__name__,
                            repr(ex)[:200])
                return
            for t, (d, hms) in enumerate(flags):
                h.claim('TFLAG-date[%d]' % t,
                        common.eq_expr(tf2[t, 0, 0], d))
                h.claim('TFLAG-time[%d]' % t,
                        common.eq_expr(tf2[t, 0, 1], hms))
            h.observe('tflag', [[tf2[t, 0, 0], tf2[t, 0, 1]]
                                for t in range(self.T)])
        finally:
            sys.setprofile(None)

    # ------------------------------------------------------------------
    def real(self, inputs):
        import importlib
        import warnings
        wmod, wfn, rmod, rcls = WRITERS[self.fmt]
        j = _g(inputs, 'd_j', 1)
        H = _g(inputs, 't_H', 0)
        flags = self._flags(j, H)
        data = self._data()
        viol, obs = {}, {}
        d = tempfile.mkdtemp(prefix='verif_metw_')
        path = os.path.join(d, 'out.bin')
        try:
            with warnings.catch_warnings():
                warnings.simplefilter('ignore')
                from PseudoNetCDF import PseudoNetCDFFile
                f = PseudoNetCDFFile()
                f.createDimension('TSTEP', self.T)
                f.createDimension('LAY', self.nz)
                f.createDimension('ROW', self.rows)
                f.createDimension('COL', self.cols)
                f.createDimension('VAR', 1)
                f.createDimension('DATE-TIME', 2)
                tv = f.createVariable('TFLAG', 'i', ('TSTEP', 'VAR',
                                                     'DATE-TIME'))
                for t, (dd, hms) in enumerate(flags):
                    tv[t, 0, :] = (dd, hms)
                for k, v in data.items():
                    dims = ('TSTEP', 'LAY', 'ROW', 'COL') if v.ndim == 4 \
                        else ('TSTEP', 'ROW', 'COL')
                    var = f.createVariable(k, 'f', dims)
                    var[:] = v
                if self.fmt == 'wind':
                    f.LSTAGGER = np.array(0, dtype='>i4')
                if self.fmt == 'cloud_rain':
                    f.FILEDESC = CR_DESC
                try:
                    out = getattr(importlib.import_module(wmod), wfn)(f, path)
                    out.close()
                except Exception as ex:
                    viol['writer-raised:' + type(ex).__name__] = \
                        repr(ex)[:200]
                    return {'obs': {}, 'violations': viol}
                blob = open(path, 'rb').read()
                exp = self._expected(flags, data)
                total = sum(len(w) for _, w in exp)
                if len(blob) != 4 * total:
                    viol['file-size'] = '%d bytes, layout has %d' % (
                        len(blob), 4 * total)
                    return {'obs': {}, 'violations': viol}
                words = struct.unpack('>%di' % total, blob)
                pos = 0
                for lab, ew in exp:
                    w = words[pos:pos + len(ew)]
                    raw = blob[4 * pos:4 * (pos + len(ew))]
                    pos += len(ew)
                    plain_ok = True
                    for i, (got, want) in enumerate(zip(w, ew)):
                        if isinstance(want, tuple):
                            kind, val, scale = want
                            if kind == 'f':
                                g, = struct.unpack('>f', raw[4 * i:4 * i + 4])
                                if g * scale != val:
                                    viol[lab + ':time'] = \
                                        '%r written for %d' % (g, val)
                            elif got != val:
                                viol[lab + ':date'] = '%r written for %d' % (
                                    got, val)
                        elif got != want:
                            plain_ok = False
                    if not plain_ok:
                        viol[lab + ':markers-and-payload'] = \
                            'record words differ from the layout'
                # library reader on the library-written file
                try:
                    cls = getattr(importlib.import_module(rmod), rcls)
                    g = cls(path, self.rows, self.cols)
                    t2 = np.asarray(g.variables['TFLAG'][:])[:, 0, :]
                    obs['tflag'] = t2.astype(int).tolist()
                    for t, (dd, hms) in enumerate(flags):
                        if int(t2[t, 0]) != dd:
                            viol['TFLAG-date[%d]' % t] = \
                                'wrote %d read %r' % (dd, t2[t].tolist())
                        if int(t2[t, 1]) != hms:
                            viol['TFLAG-time[%d]' % t] = \
                                'wrote %d read %r' % (hms, t2[t].tolist())
                    for k, v in data.items():
                        got = np.asarray(g.variables[k][:], dtype='f')
                        if got.shape != v.shape or not np.array_equal(
                                got.view('i4'), v.view('i4')):
                            viol['payload-read-back[%s]' % k] = \
                                'values differ after the round trip'
                except Exception as ex:
                    if self.T >= 2:
                        viol['reader-raised:' + type(ex).__name__] = \
                            repr(ex)[:200]
        finally:
            for fn in os.listdir(d):
                os.remove(os.path.join(d, fn))
            os.rmdir(d)
        return {'obs': obs, 'violations': viol, 'start': (self.year, j, H)}


def obligations(tier):
    obs = []
    years = (1970, 1999, 2004) if tier == 'quick' else (
        1970, 1999, 2000, 2004, 2069)
    for fmt in ('one3d', 'temperature', 'height_pressure', 'wind',
                'cloud_rain'):
        for y in years:
            obs.append(MetWrite(fmt, y, 2, 2, 1, 2))
        if tier == 'thorough':
            obs.append(MetWrite(fmt, 2003, 3, 1, 2, 2))
            obs.append(MetWrite(fmt, 2004, 3, 3, 2, 1))
    return obs
