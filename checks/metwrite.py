"""Writers of the header-less CAMx meteorological formats (one3d = humidity /
vertical_diffusivity, temperature, height_pressure) -- used by C08 (time-flag
and payload round trip) and C09 (writer -> reference layout).

The real writer function is executed in the twin with
  * the builtin open() of its module replaced by a byte sink that records
    every write (real bytes and the symbolic items ndarray.tobytes()/tofile()
    stand for),
  * TFLAG holding symbolic YYYYJJJ/HHMMSS flags (hourly steps from a symbolic
    day of year and hour of an enumerated year), data concrete float32.
The word sequence the sink received is compared with the reference layout
(checks/layouts.py: MetLayout): every record [marker][time f HHMM][date i
YYJJJ][cells f][marker]; then the reader's time reconstruction (the real
ArrayTransforms.ConvertCAMxTime, as all met Memmap readers call it) is applied
to the written (date, time) words and must give back the flags."""
import os
import struct
import tempfile

import numpy as np
import z3

from verifx import symx, loader, shim, symdatetime as sd
from verifx.harness import Obligation
from . import common, layouts
from .c11 import _flag
from .c12 import _valid_date, _g

WRITERS = {
    'one3d': ('PseudoNetCDF.camxfiles.one3d.Write', 'ncf2one3d',
              'PseudoNetCDF.camxfiles.one3d.Memmap', 'one3d'),
    'temperature': ('PseudoNetCDF.camxfiles.temperature.Write',
                    'ncf2temperature',
                    'PseudoNetCDF.camxfiles.temperature.Memmap',
                    'temperature'),
    'height_pressure': ('PseudoNetCDF.camxfiles.height_pressure.Write',
                        'ncf2height_pressure',
                        'PseudoNetCDF.camxfiles.height_pressure.Memmap',
                        'height_pressure'),
}


class _NC(object):
    pass


class MetWrite(Obligation):
    mode = 'int'
    validate_paths = 3
    max_paths = 200
    timeout_ms = 60000
    stubs = ('open() of the writer module (byte sink)',
             'ndarray.tobytes/tofile of symbolic cells (typed items)',
             'datetime reference (symdatetime calendar tables)')
    any_violation_confirms = True

    def __init__(self, fmt, year, T, nz, rows, cols):
        self.fmt, self.year, self.T = fmt, year, T
        self.nz, self.rows, self.cols = nz, rows, cols
        self.name = 'met-write[%s,%d,T=%d,nz=%d,rows=%d,cols=%d]' % (
            fmt, year, T, nz, rows, cols)
        self.bounds = {'year': year, 'T': T, 'nz': nz, 'rows': rows,
                       'cols': cols, 'start': 'any day of year, any hour'}

    def _seq(self):
        return layouts.MetLayout.KINDS[self.fmt](self.nz)

    def _data(self):
        rng = np.random.RandomState(17)
        out = {}
        for var, k in self._seq():
            if var not in out:
                shp = (self.T, self.rows, self.cols) if k is None else \
                    (self.T, self.nz, self.rows, self.cols)
                a = (rng.rand(*shp) * 300).astype('f')
                # special bit patterns travel as plain copies
                flat = a.reshape(-1)
                flat[0] = -0.0
                if flat.size > 1:
                    flat[-1] = np.float32(1e-45)
                out[var] = a
        return out

    def _flags(self, j, H):
        out = []
        for t in range(self.T):
            y, jj, hms = _flag(self.year, j, H, 0, t * 3600)
            out.append((y * 1000 + jj, hms))
        return out

    # ------------------------------------------------------------------
    def sym(self, ctx, h):
        wmod, wfn, rmod, rcls = WRITERS[self.fmt]
        sp = loader.TwinSpace(objfloat='all')
        self._space = sp
        W = sp.twin(wmod)
        conv = sp.twin('PseudoNetCDF.ArrayTransforms').ConvertCAMxTime
        sd.YEAR_RANGE = (self.year - 1, self.year + 1)
        sd.FORK_YEARS = True
        _valid_date(ctx, 'd', self.year, self.year)
        j = symx.SymInt(ctx.inputs['d_j'])
        H = ctx.int('t_H', 0, 23)
        if self.year == 2069:
            ctx.assume(ctx.inputs['d_j'] <= 364, check=False)
        flags = self._flags(j, H)
        tf = np.empty((self.T, 1, 2), dtype=object)
        for t, (d, hms) in enumerate(flags):
            tf[t, 0, 0], tf[t, 0, 1] = d, hms
        data = self._data()
        nc = _NC()
        nc.variables = {'TFLAG': tf.view(shim.SymNDArray)}
        for k, v in data.items():
            nc.variables[k] = v.view(shim.SymNDArray)
        sink = shim.ByteSink()
        W.open = lambda path, mode='wb': sink
        import sys
        sys.setprofile(sp.profile())
        try:
            try:
                getattr(W, wfn)(nc, 'symbolic-path')
            except Exception as ex:
                h.candidate('writer-raised:' + type(ex).__name__,
                            repr(ex)[:200])
                return
            words = sink.words()
            cells = self.rows * self.cols
            seq = self._seq()
            nrec = self.T * len(seq)
            ok = words is not None and len(words) == nrec * (cells + 4)
            h.claim('file-size', z3.BoolVal(bool(ok)))
            if not ok:
                return
            m = 4 * (cells + 2)
            dates, times = [], []
            for t in range(self.T):
                d, hms = flags[t]
                yy = d // 1000 % 100 * 1000 + d % 1000
                for i, (var, k) in enumerate(seq):
                    r = t * len(seq) + i
                    w = words[r * (cells + 4):(r + 1) * (cells + 4)]
                    lab = 'record[t=%d,%s,%s]' % (t, var, k)
                    h.claim(lab + ':markers',
                            z3.BoolVal(w[0] == m and w[-1] == m))
                    tw, dw = w[1], w[2]
                    okt = isinstance(tw, tuple) and \
                        np.dtype(tw[0]) == np.dtype('>f4')
                    okd = isinstance(dw, tuple) and \
                        np.dtype(dw[0]) == np.dtype('>i4')
                    h.claim(lab + ':time', z3.And(
                        z3.BoolVal(bool(okt)), common.eq_expr(
                            tw[1] * 100, hms) if okt else z3.BoolVal(False)))
                    h.claim(lab + ':date', z3.And(
                        z3.BoolVal(bool(okd)), common.eq_expr(
                            dw[1], yy) if okd else z3.BoolVal(False)))
                    cell = data[var][t] if k is None else data[var][t, k]
                    exp = list(struct.unpack(
                        '>%di' % cells, cell.astype('>f4').tobytes()))
                    h.claim(lab + ':payload', z3.BoolVal(w[3:-1] == exp))
                    if i == 0 and okt and okd:
                        dates.append(dw[1])
                        times.append(tw[1])
            if len(dates) != self.T:
                return
            # the reader's reconstruction of the time flags
            try:
                da = np.empty(self.T, dtype=object)
                ta = np.empty(self.T, dtype=object)
                da[:], ta[:] = dates, times
                tf2 = conv(da.view(shim.SymNDArray),
                           ta.view(shim.SymNDArray), 1)
            except Exception as ex:
                h.candidate('reader-raised:' + type(ex).__name__,
                            repr(ex)[:200])
                return
            for t, (d, hms) in enumerate(flags):
                h.claim('TFLAG-date[%d]' % t,
                        common.eq_expr(tf2[t, 0, 0], d))
                h.claim('TFLAG-time[%d]' % t,
                        common.eq_expr(tf2[t, 0, 1], hms))
            h.observe('tflag', [[tf2[t, 0, 0], tf2[t, 0, 1]]
                                for t in range(self.T)])
        finally:
            sys.setprofile(None)

    # ------------------------------------------------------------------
    def real(self, inputs):
        import importlib
        import warnings
        wmod, wfn, rmod, rcls = WRITERS[self.fmt]
        j = _g(inputs, 'd_j', 1)
        H = _g(inputs, 't_H', 0)
        flags = self._flags(j, H)
        data = self._data()
        viol, obs = {}, {}
        d = tempfile.mkdtemp(prefix='verif_metw_')
        path = os.path.join(d, 'out.bin')
        try:
            with warnings.catch_warnings():
                warnings.simplefilter('ignore')
                from PseudoNetCDF import PseudoNetCDFFile
                f = PseudoNetCDFFile()
                f.createDimension('TSTEP', self.T)
                f.createDimension('LAY', self.nz)
                f.createDimension('ROW', self.rows)
                f.createDimension('COL', self.cols)
                f.createDimension('VAR', 1)
                f.createDimension('DATE-TIME', 2)
                tv = f.createVariable('TFLAG', 'i', ('TSTEP', 'VAR',
                                                     'DATE-TIME'))
                for t, (dd, hms) in enumerate(flags):
                    tv[t, 0, :] = (dd, hms)
                for k, v in data.items():
                    dims = ('TSTEP', 'LAY', 'ROW', 'COL') if v.ndim == 4 \
                        else ('TSTEP', 'ROW', 'COL')
                    var = f.createVariable(k, 'f', dims)
                    var[:] = v
                try:
                    out = getattr(importlib.import_module(wmod), wfn)(f, path)
                    out.close()
                except Exception as ex:
                    viol['writer-raised:' + type(ex).__name__] = \
                        repr(ex)[:200]
                    return {'obs': {}, 'violations': viol}
                blob = open(path, 'rb').read()
                cells = self.rows * self.cols
                seq = self._seq()
                m = 4 * (cells + 2)
                if len(blob) != self.T * len(seq) * (m + 8):
                    viol['file-size'] = '%d bytes, layout has %d' % (
                        len(blob), self.T * len(seq) * (m + 8))
                    return {'obs': {}, 'violations': viol}
                off = 0
                for t, (dd, hms) in enumerate(flags):
                    yy = dd // 1000 % 100 * 1000 + dd % 1000
                    for var, k in seq:
                        lab = 'record[t=%d,%s,%s]' % (t, var, k)
                        rec = blob[off:off + m + 8]
                        off += m + 8
                        m0, = struct.unpack('>i', rec[:4])
                        m1, = struct.unpack('>i', rec[-4:])
                        if (m0, m1) != (m, m):
                            viol[lab + ':markers'] = '%d/%d, layout %d' % (
                                m0, m1, m)
                        tt, di = struct.unpack('>fi', rec[4:12])
                        if tt * 100 != hms:
                            viol[lab + ':time'] = '%r written for %d' % (
                                tt, hms)
                        if di != yy:
                            viol[lab + ':date'] = '%r written for %d' % (
                                di, dd)
                        cell = data[var][t] if k is None else data[var][t, k]
                        if rec[12:-4] != cell.astype('>f4').tobytes():
                            viol[lab + ':payload'] = 'cell bytes differ'
                # library reader on the library-written file
                try:
                    cls = getattr(importlib.import_module(rmod), rcls)
                    g = cls(path, self.rows, self.cols)
                    t2 = np.asarray(g.variables['TFLAG'][:])[:, 0, :]
                    obs['tflag'] = t2.astype(int).tolist()
                    for t, (dd, hms) in enumerate(flags):
                        if int(t2[t, 0]) != dd:
                            viol['TFLAG-date[%d]' % t] = \
                                'wrote %d read %r' % (dd, t2[t].tolist())
                        if int(t2[t, 1]) != hms:
                            viol['TFLAG-time[%d]' % t] = \
                                'wrote %d read %r' % (hms, t2[t].tolist())
                    for k, v in data.items():
                        got = np.asarray(g.variables[k][:], dtype='f')
                        if got.shape != v.shape or not np.array_equal(
                                got.view('i4'), v.view('i4')):
                            viol['payload-read-back[%s]' % k] = \
                                'values differ after the round trip'
                except Exception as ex:
                    if self.T >= 2:
                        viol['reader-raised:' + type(ex).__name__] = \
                            repr(ex)[:200]
        finally:
            for fn in os.listdir(d):
                os.remove(os.path.join(d, fn))
            os.rmdir(d)
        return {'obs': obs, 'violations': viol, 'start': (self.year, j, H)}


def obligations(tier):
    obs = []
    years = (1999, 2004) if tier == 'quick' else (1970, 1999, 2000, 2004,
                                                  2069)
    for fmt in ('one3d', 'temperature', 'height_pressure'):
        for y in years:
            obs.append(MetWrite(fmt, y, 2, 2, 1, 2))
        if tier == 'thorough':
            obs.append(MetWrite(fmt, 2003, 3, 1, 2, 2))
            obs.append(MetWrite(fmt, 2004, 3, 3, 2, 1))
    return obs
