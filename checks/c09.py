"""C09 -- binary files conform to the published layout (gridded uamiv format).

writer in spec: the record-marker expressions of camxfiles/uamiv/Write.py:
ncf2uamiv (AST-extracted, evaluated on a symbolic cell count and species
count) equal the sizes the CAMx layout prescribes, and the fixed header record
sizes come from the writer's real numpy dtypes.
spec in reader: the memmap reader's size arithmetic (AST slice, as in C14) at
the full length yields exactly T steps at the layout's offsets, and the record
reader's seeks land on the layout's record starts (the C13 obligations)."""
import os
import struct
import tempfile

import numpy as np
import z3

from verifx import symx, loader
from verifx.harness import Obligation
from verifx.symx import frac_of
from . import common, layouts, c13, c14

PROPERTY = 'C09'
LEVEL = 'model_checking'
ASSUMPTIONS = [
    'reference layout = checks/layouts.py (written from the CAMx user guide, '
    'no library code)',
    'only the gridded average/emissions (uamiv) format is encoded; '
    'lateral_boundary, landuse, the meteorological formats, bpch and ARL are '
    'not (structured-dtype whole-file mappings / writers that fail under '
    'numpy 2.5)',
    'writer side: record-marker arithmetic symbolic in cells per layer and '
    'species count; the byte-level decode of names/values is done only in '
    'replay (real file, independent struct-based walker)',
]

MANIFEST = {
    'category': 'model_checking',
    'technique': 'AST-extracted size expressions of the real uamiv writer and '
                 'AST-sliced size arithmetic of the memmap reader on symbolic '
                 'sizes, plus the record reader on a symbolic record file, '
                 'all compared by z3 with an independent reference layout; '
                 'replay with real files and an independent struct decoder',
    'text': 'Bounded symbolic checking for the gridded CAMx format: for ALL '
            'grid sizes (cells per layer unbounded) and species counts the '
            'writer\'s record markers equal the layout\'s record sizes and '
            'the fixed header records have the prescribed sizes; for the '
            'full-size file the memmap reader derives exactly T steps at the '
            'layout offsets (T unbounded) and the record reader seeks to the '
            'layout\'s record starts (nspec, nz <= 2, T <= 3).',
    'note': 'Trusted: z3, reference layout, numpy dtype item sizes. Other '
            'binary formats are not encoded.',
}


class _Box(object):
    def __init__(self, v):
        self.v = v

    def astype(self, *a):
        return self


class _NP(object):
    @staticmethod
    def array(x, *a, **k):
        return _Box(x)

    @staticmethod
    def dtype(*a, **k):
        return None


class _Data(object):
    def __init__(self, size):
        self.size = size


class WriterMarkers(Obligation):
    mode = 'int'
    validate_paths = 3
    name = 'writer-markers[uamiv]'
    bounds = {'cells per layer': 'unbounded', 'nspec': 'unbounded'}
    stubs = ('np.array(...).astype (value box)',)

    def sym(self, ctx, h):
        sp = loader.TwinSpace()
        W = sp.twin('PseudoNetCDF.camxfiles.uamiv.Write')
        self._space = None
        found = loader.find_assign_values(
            'PseudoNetCDF.camxfiles.uamiv.Write', 'ncf2uamiv',
            ['buf', ('spc_hdr', 'SPAD1'), ('spc_hdr', 'EPAD1'),
             ('time_hdr', 'SPAD'), ('time_hdr', 'EPAD'),
             ('grid_hdr', 'SPAD'), ('grid_hdr', 'EPAD'),
             ('cell_hdr', 'SPAD'), ('cell_hdr', 'EPAD'),
             ('emiss_hdr', 'SPAD'), ('emiss_hdr', 'EPAD')])
        self._info = {'file': 'src/PseudoNetCDF/camxfiles/uamiv/Write.py',
                      'qualname': 'ncf2uamiv', 'sha256': '',
                      'statements': [v[1] for v in found.values()]}
        import hashlib
        self._info['sha256'] = hashlib.sha256('\n'.join(
            self._info['statements']).encode()).hexdigest()[:16]
        nx = ctx.int('nx', 1, 4096)
        ny = ctx.int('ny', 1, 4096)
        cells = ctx.int('cells', 1)
        nspec = ctx.int('nspec', 1, 512)
        env = dict(W.__dict__)
        env.update({'np': _NP, 'data': _Data(cells), 'nspec': nspec,
                    '__builtins__': sp.builtins,
                    'grid_hdr': np.zeros(1, W._grid_hdr_fmt),
                    'cell_hdr': np.zeros(1, W._cell_hdr_fmt)})

        def ev(key):
            v = eval(found[key][0], env)
            return v.v if isinstance(v, _Box) else v
        lay = layouts.UamivLayout(1, 1, 1, cells, nx, ny, 2001, 0, 1, 24)
        h.claim('data-record-marker', symx._b(ev('buf') == lay.P - 8))
        h.claim('species-record-marker', z3.And(
            symx._b(ev(('spc_hdr', 'SPAD1')) == 40 * nspec),
            symx._b(ev(('spc_hdr', 'EPAD1')) == 40 * nspec)))
        h.claim('time-record-marker', z3.BoolVal(
            ev(('time_hdr', 'SPAD')) == 16 and ev(('time_hdr', 'EPAD')) == 16))
        h.claim('grid-record-marker', z3.BoolVal(
            int(ev(('grid_hdr', 'SPAD'))) == 60 and
            int(ev(('grid_hdr', 'EPAD'))) == 60))
        h.claim('cell-record-marker', z3.BoolVal(
            int(ev(('cell_hdr', 'SPAD'))) == 16 and
            int(ev(('cell_hdr', 'EPAD'))) == 16))
        h.claim('emiss-record-marker', z3.BoolVal(
            int(ev(('emiss_hdr', 'SPAD'))) == 304 and
            int(ev(('emiss_hdr', 'EPAD'))) == 304))
        h.observe('ok', True)

    def real(self, inputs):
        """write a real file with the library writer, walk it with an
        independent struct-based decoder"""
        import warnings
        nx = min(int(frac_of(inputs.get('nx', 3))), 7)
        ny = min(int(frac_of(inputs.get('ny', 2))), 5)
        nspec = min(int(frac_of(inputs.get('nspec', 2))), 3)
        T, nz = 2, 2
        viol = {}
        d = tempfile.mkdtemp(prefix='verif_c09_')
        path = os.path.join(d, 'w.uamiv')
        try:
            with warnings.catch_warnings():
                warnings.simplefilter('ignore')
                from PseudoNetCDF import PseudoNetCDFFile
                from PseudoNetCDF.camxfiles.uamiv.Write import ncf2uamiv
                f = PseudoNetCDFFile()
                for k, n in (('TSTEP', T), ('LAY', nz), ('ROW', ny),
                             ('COL', nx), ('VAR', nspec), ('DATE-TIME', 2)):
                    f.createDimension(k, n)
                tv = f.createVariable('TFLAG', 'i', ('TSTEP', 'VAR',
                                                     'DATE-TIME'))
                for t in range(T):
                    tv[t, :, 0] = 2004010
                    tv[t, :, 1] = t * 10000
                names = ['SP%d' % i for i in range(nspec)]
                rng = np.random.RandomState(3)
                data = {}
                for n_ in names:
                    v = f.createVariable(n_, 'f', ('TSTEP', 'LAY', 'ROW',
                                                   'COL'))
                    data[n_] = rng.rand(T, nz, ny, nx).astype('f')
                    v[:] = data[n_]
                f.NAME, f.NOTE = 'AVERAGE   ', 'note'.ljust(60)
                f.ITZON, f.PLON, f.PLAT, f.IUTM = 0, 0., 0., 0
                f.XORIG, f.YORIG, f.XCELL, f.YCELL = 0., 0., 1000., 1000.
                f.CPROJ, f.TLAT1, f.TLAT2, f.ISTAG = 0, 0., 0., 0
                f.TSTEP = 10000
                setattr(f, 'VAR-LIST', ''.join(n_.ljust(16) for n_ in names))
                try:
                    ncf2uamiv(f, path).close()
                except Exception as ex:
                    viol['writer-raised'] = repr(ex)[:200]
                    return {'obs': {}, 'violations': viol}
            blob = open(path, 'rb').read()
            recs = []
            off = 0
            while off < len(blob):
                if off + 4 > len(blob):
                    viol['tiling'] = 'trailing bytes'
                    break
                n = struct.unpack('>i', blob[off:off + 4])[0]
                end = off + 4 + n
                if n < 0 or end + 4 > len(blob):
                    viol['tiling'] = 'record at %d overruns the file' % off
                    break
                m = struct.unpack('>i', blob[end:end + 4])[0]
                if m != n:
                    viol['markers'] = 'record at %d: %d vs %d' % (off, n, m)
                    break
                recs.append((off, n))
                off = end + 4
            exp = [304, 60, 16, 40 * nspec]
            for t in range(T):
                exp.append(16)
                exp += [4 * (11 + nx * ny)] * (nspec * nz)
            if not viol and [r[1] for r in recs] != exp:
                viol['data-record-marker'] = 'record sizes %r expected %r' % (
                    [r[1] for r in recs][:8], exp[:8])
            if not viol:
                k = 4
                for t in range(T):
                    k += 1
                    for si, n_ in enumerate(names):
                        for z in range(nz):
                            o, n = recs[k]
                            body = blob[o + 4:o + 4 + n]
                            vals = np.frombuffer(body[44:], dtype='>f4')
                            if not np.array_equal(
                                    vals.reshape(ny, nx), data[n_][t, z]):
                                viol['payload'] = 'cell values differ'
                            k += 1
        finally:
            for fn in os.listdir(d):
                os.remove(os.path.join(d, fn))
            os.rmdir(d)
        return {'obs': {'ok': True}, 'violations': viol,
                'grid': (nspec, nz, ny, nx)}

    any_violation_confirms = True


class FullSizeMemmap(c14.CutUamiv):
    """memmap reader at the full file length: exactly T steps"""

    def __init__(self, nspec, nz, ny, nx):
        c14.CutUamiv.__init__(self, nspec, nz, ny, nx, None)
        self.name = 'reader-memmap-full[nspec=%d,nz=%d,ny=%d,nx=%d]' % (
            nspec, nz, ny, nx)

    def sym(self, ctx, h):
        nspec, nz, ny, nx, _ = self.p
        run, info, holder, sp = self.kernel()
        self._space = None
        T = ctx.int('T', 1, 10 ** 6)
        lay = self._layout(T)
        me = type('S', (), {})()
        g = lambda n: getattr(holder, '_uamiv__' + n)  # noqa
        me._uamiv__emiss_hdr = c14.FakeMap(g('emiss_hdr_fmt'), 1)
        me._uamiv__grid_hdr = c14.FakeMap(g('grid_hdr_fmt'), 1)
        me._uamiv__cell_hdr = c14.FakeMap(g('cell_hdr_fmt'), 1)
        me._uamiv__spc_hdr = c14.FakeMap(g('spc_fmt'), nspec)
        env = dict(sp.twin('PseudoNetCDF.camxfiles.uamiv.Memmap').__dict__)
        env.update({'self': me, 'nx': nx, 'ny': ny, 'nz': nz, 'nspec': nspec,
                    'size': lay.length})
        self._info = info
        try:
            out = run(env)
        except ValueError as ex:
            h.candidate('raised-on-valid-file', str(ex)[:80])
            return
        h.claim('steps', symx._b(out['ntimes'] == T))
        h.claim('header-offset', symx._b(out['offset'] == lay.H))
        h.claim('block-size', symx._b(out['data_block_size'] * 4 == lay.B))
        h.observe('ntimes', out['ntimes'])

    def real(self, inputs):
        import warnings
        nspec, nz, ny, nx, _ = self.p
        T = min(int(frac_of(inputs.get('T', 2))), 50)
        lay = layouts.UamivLayout(nspec, nz, T, nx * ny, nx, ny, 2001, 0, 1,
                                  24)
        viol = {}
        d = tempfile.mkdtemp(prefix='verif_c09_')
        path = os.path.join(d, 'r.uamiv')
        try:
            data = lay.write_real(path)
            with warnings.catch_warnings():
                warnings.simplefilter('ignore')
                from PseudoNetCDF.camxfiles.uamiv.Memmap import uamiv as MM
                try:
                    mm = MM(path)
                    nt = len(mm.dimensions['TSTEP'])
                    if nt != T:
                        viol['steps'] = '%d steps read, %d encoded' % (nt, T)
                    for si, sn in enumerate(lay.spcnames):
                        got = np.array(mm.variables[sn.strip()])
                        if not np.array_equal(got, data[:, si]):
                            viol['payload'] = 'values differ from encoder'
                except Exception as ex:
                    viol['raised-on-valid-file'] = repr(ex)[:200]
        finally:
            for fn in os.listdir(d):
                os.remove(os.path.join(d, fn))
            os.rmdir(d)
        return {'obs': {'ntimes': T}, 'violations': viol}


def obligations(tier):
    obs = [WriterMarkers()]
    for g in [(1, 1, 1, 1), (2, 1, 1, 2), (1, 2, 2, 1), (2, 2, 2, 3)]:
        obs.append(FullSizeMemmap(*g))
    for nspec, nz, T in ((1, 1, 2), (2, 1, 2), (1, 2, 3)) + (
            ((2, 2, 3),) if tier == 'thorough' else ()):
        o = c13.ReadUamiv(nspec, nz, T, 'hours')
        o.name = 'reader-record-' + o.name
        obs.append(o)
    return obs
