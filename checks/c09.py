"""C09 -- binary files conform to the published layout (gridded uamiv format).

writer in spec: the record-marker expressions of camxfiles/uamiv/Write.py:
ncf2uamiv (AST-extracted, evaluated on a symbolic cell count and species
count) equal the sizes the CAMx layout prescribes, and the fixed header record
sizes come from the writer's real numpy dtypes.
spec in reader: the memmap reader's size arithmetic (AST slice, as in C14) at
the full length yields exactly T steps at the layout's offsets, and the record
reader's seeks land on the layout's record starts (the C13 obligations)."""
import os
import struct
import tempfile

import numpy as np
import z3

from verifx import symx, loader
from verifx.harness import Obligation
from verifx.symx import frac_of
from . import common, layouts, c13, c14, metmap

PROPERTY = 'C09'
LEVEL = 'model_checking'
ASSUMPTIONS = [
    'reference layout = checks/layouts.py (written from the CAMx user guide, '
    'no library code)',
    'writers: the gridded average/emissions (uamiv) writer and the one3d / '
    'temperature / height_pressure / wind / cloud_rain writers (checks/metwrite.py: real writer '
    'function on a byte sink, symbolic time flags, concrete payload); '
    'lateral_boundary, landuse writers are not encoded. uamiv: '
    'its data loop is '
    'executed on a sink that records the byte count and integer value of '
    'every tofile call, with an unbounded cell count and the source dtype '
    'enumerated (f4, f8; i4, i2 thorough); the byte-level decode of '
    'names/values is done only in replay (real file, independent walker)',
    'readers: uamiv memmap (size arithmetic, all four file kinds) and record '
    'reader; one3d/temperature/height_pressure/wind memmap readers on the '
    'full reference file (checks/metmap.py; also lateral_boundary) and the '
    'wind reader\'s layer/step arithmetic on a symbolic record file (2..24 '
    'cells per layer); landuse, cloud_rain (full file), bpch and ARL are '
    'not encoded',
]

MANIFEST = {
    'category': 'model_checking',
    'technique': 'AST-extracted size expressions of the real uamiv writer and '
                 'AST-sliced size arithmetic of the memmap reader on symbolic '
                 'sizes, plus the record reader on a symbolic record file, '
                 'all compared by z3 with an independent reference layout; '
                 'replay with real files and an independent struct decoder',
    'text': 'Bounded symbolic checking for the gridded CAMx format: for ALL '
            'grid sizes (cells per layer unbounded) and species counts the '
            'writer\'s record markers equal the layout\'s record sizes and '
            'the fixed header records have the prescribed sizes; for the '
            'full-size file the memmap reader derives exactly T steps at the '
            'layout offsets (T unbounded) and the record reader seeks to the '
            'layout\'s record starts (nspec, nz <= 2, T <= 3). The met memmap '
            'readers expose exactly the encoded steps, values and time flags '
            'of small reference files (nz<=2, T<=3).',
    'note': 'Trusted: z3, reference layout, numpy dtype item sizes. Other '
            'binary formats are not encoded.',
}


class _Box(object):
    def __init__(self, v):
        self.v = v

    def astype(self, *a):
        return self


class _NP(object):
    @staticmethod
    def array(x, *a, **k):
        return _Box(x)

    @staticmethod
    def dtype(*a, **k):
        return None


class _Data(object):
    def __init__(self, size):
        self.size = size


class WriterMarkers(Obligation):
    mode = 'int'
    validate_paths = 3
    encoding_fragile = True          # AST-extracted expressions
    name = 'writer-header-markers[uamiv]'
    bounds = {'nspec': 'unbounded'}
    stubs = ('np.array(...).astype (value box)',)

    def sym(self, ctx, h):
        sp = loader.TwinSpace()
        W = sp.twin('PseudoNetCDF.camxfiles.uamiv.Write')
        self._space = None
        found = loader.find_assign_values(
            'PseudoNetCDF.camxfiles.uamiv.Write', 'ncf2uamiv',
            [('spc_hdr', 'SPAD1'), ('spc_hdr', 'EPAD1'),
             ('time_hdr', 'SPAD'), ('time_hdr', 'EPAD'),
             ('grid_hdr', 'SPAD'), ('grid_hdr', 'EPAD'),
             ('cell_hdr', 'SPAD'), ('cell_hdr', 'EPAD'),
             ('emiss_hdr', 'SPAD'), ('emiss_hdr', 'EPAD')])
        self._info = {'file': 'src/PseudoNetCDF/camxfiles/uamiv/Write.py',
                      'qualname': 'ncf2uamiv', 'sha256': '',
                      'statements': [v[1] for v in found.values()]}
        import hashlib
        self._info['sha256'] = hashlib.sha256('\n'.join(
            self._info['statements']).encode()).hexdigest()[:16]
        nx = ctx.int('nx', 1, 4096)
        ny = ctx.int('ny', 1, 4096)
        cells = ctx.int('cells', 1)
        nspec = ctx.int('nspec', 1, 512)
        env = dict(W.__dict__)
        env.update({'np': _NP, 'data': _Data(cells), 'nspec': nspec,
                    '__builtins__': sp.builtins,
                    'grid_hdr': np.zeros(1, W._grid_hdr_fmt),
                    'cell_hdr': np.zeros(1, W._cell_hdr_fmt)})

        def ev(key):
            v = eval(found[key][0], env)
            return v.v if isinstance(v, _Box) else v
        h.claim('species-record-marker', z3.And(
            symx._b(ev(('spc_hdr', 'SPAD1')) == 40 * nspec),
            symx._b(ev(('spc_hdr', 'EPAD1')) == 40 * nspec)))
        h.claim('time-record-marker', z3.BoolVal(
            ev(('time_hdr', 'SPAD')) == 16 and ev(('time_hdr', 'EPAD')) == 16))
        h.claim('grid-record-marker', z3.BoolVal(
            int(ev(('grid_hdr', 'SPAD'))) == 60 and
            int(ev(('grid_hdr', 'EPAD'))) == 60))
        h.claim('cell-record-marker', z3.BoolVal(
            int(ev(('cell_hdr', 'SPAD'))) == 16 and
            int(ev(('cell_hdr', 'EPAD'))) == 16))
        h.claim('emiss-record-marker', z3.BoolVal(
            int(ev(('emiss_hdr', 'SPAD'))) == 304 and
            int(ev(('emiss_hdr', 'EPAD'))) == 304))
        h.observe('ok', True)

    def real(self, inputs):
        nspec = min(int(frac_of(inputs.get('nspec', 2))), 3)
        return _write_and_walk(inputs, 'f', nspec, 2)

    any_violation_confirms = True


def _write_and_walk(inputs, srcdt, nspec, nz):
        """write a real file with the library writer, walk it with an
        independent struct-based decoder"""
        import warnings
        nx = min(int(frac_of(inputs.get('nx', 3))), 7)
        ny = min(int(frac_of(inputs.get('ny', 2))), 5)
        T = 2
        viol = {}
        d = tempfile.mkdtemp(prefix='verif_c09_')
        path = os.path.join(d, 'w.uamiv')
        try:
            with warnings.catch_warnings():
                warnings.simplefilter('ignore')
                from PseudoNetCDF import PseudoNetCDFFile
                from PseudoNetCDF.camxfiles.uamiv.Write import ncf2uamiv
                f = PseudoNetCDFFile()
                for k, n in (('TSTEP', T), ('LAY', nz), ('ROW', ny),
                             ('COL', nx), ('VAR', nspec), ('DATE-TIME', 2)):
                    f.createDimension(k, n)
                tv = f.createVariable('TFLAG', 'i', ('TSTEP', 'VAR',
                                                     'DATE-TIME'))
                for t in range(T):
                    tv[t, :, 0] = 2004010
                    tv[t, :, 1] = t * 10000
                names = ['SP%d' % i for i in range(nspec)]
                rng = np.random.RandomState(3)
                data = {}
                for n_ in names:
                    v = f.createVariable(n_, srcdt, ('TSTEP', 'LAY', 'ROW',
                                                     'COL'))
                    data[n_] = (rng.rand(T, nz, ny, nx) * 100).astype(
                        srcdt).astype('f')
                    v[:] = data[n_]
                f.NAME, f.NOTE = 'AVERAGE   ', 'note'.ljust(60)
                f.ITZON, f.PLON, f.PLAT, f.IUTM = 0, 0., 0., 0
                f.XORIG, f.YORIG, f.XCELL, f.YCELL = 0., 0., 1000., 1000.
                f.CPROJ, f.TLAT1, f.TLAT2, f.ISTAG = 0, 0., 0., 0
                f.TSTEP = 10000
                setattr(f, 'VAR-LIST', ''.join(n_.ljust(16) for n_ in names))
                try:
                    ncf2uamiv(f, path).close()
                except Exception as ex:
                    viol['writer-raised'] = repr(ex)[:200]
                    return {'obs': {}, 'violations': viol}
            blob = open(path, 'rb').read()
            recs = []
            off = 0
            while off < len(blob):
                if off + 4 > len(blob):
                    viol['tiling'] = 'trailing bytes'
                    break
                n = struct.unpack('>i', blob[off:off + 4])[0]
                end = off + 4 + n
                if n < 0 or end + 4 > len(blob):
                    viol['tiling'] = 'record at %d overruns the file' % off
                    break
                m = struct.unpack('>i', blob[end:end + 4])[0]
                if m != n:
                    viol['markers'] = 'record at %d: %d vs %d' % (off, n, m)
                    break
                recs.append((off, n))
                off = end + 4
            exp = [304, 60, 16, 40 * nspec]
            for t in range(T):
                exp.append(16)
                exp += [4 * (11 + nx * ny)] * (nspec * nz)
            if not viol and [r[1] for r in recs] != exp:
                viol['data-record-marker'] = 'record sizes %r expected %r' % (
                    [r[1] for r in recs][:8], exp[:8])
            if not viol:
                k = 4
                for t in range(T):
                    k += 1
                    for si, n_ in enumerate(names):
                        for z in range(nz):
                            o, n = recs[k]
                            body = blob[o + 4:o + 4 + n]
                            vals = np.frombuffer(body[44:], dtype='>f4')
                            if not np.array_equal(
                                    vals.reshape(ny, nx), data[n_][t, z]):
                                viol['payload'] = 'cell values differ'
                            k += 1
        finally:
            for fn in os.listdir(d):
                os.remove(os.path.join(d, fn))
            os.rmdir(d)
        return {'obs': {'ok': True}, 'violations': viol,
                'grid': (nspec, nz, ny, nx)}


# --------------------------------------------------------------------------
# the writer's data loop on a byte-counting sink
# --------------------------------------------------------------------------
class _Piece(object):
    """what one .tofile() call puts into the file: a byte count (symbolic
    allowed), and for 4-byte integers the value"""

    def __init__(self, nbytes, kind, value=None, dtype=None):
        self.nbytes, self.kind, self.value, self.dtype = \
            nbytes, kind, value, dtype

    def tofile(self, sink):
        sink.pieces.append(self)


class _IntBox(_Piece):
    """np.array(expr): an integer scalar; astype(dt) fixes its width"""

    def __init__(self, v, dt='<i8'):
        _Piece.__init__(self, np.dtype(dt).itemsize, 'int', v,
                        np.dtype(dt).str)

    def astype(self, dt, *a, **k):
        return _IntBox(self.value, dt)


class _Slab(_Piece):
    """one (time, layer) slab of a source variable: `cells` values of the
    source dtype"""

    def __init__(self, cells, dt):
        dt = np.dtype(dt)
        _Piece.__init__(self, cells * dt.itemsize, 'data', None, dt.str)
        self.size = cells
        self.itemsize = dt.itemsize
        self.shape = (cells,)

    def astype(self, dt, *a, **k):
        return _Slab(self.size, dt)

    def filled(self, *a):
        return self

    def __getitem__(self, k):
        return self


class _SrcVar(object):
    def __init__(self, cells, dt):
        self.cells, self.dt = cells, dt

    def __getitem__(self, k):
        return _Slab(self.cells, self.dt)


class _Vars(object):
    def __init__(self, var, T):
        self.var, self.T = var, T

    def __getitem__(self, k):
        if k == 'TFLAG':
            return np.array([[[2004010, t * 10000]] for t in range(self.T)])
        return self.var


class _SinkNP(object):
    """the numpy surface the data loop uses"""
    class ma(object):
        @staticmethod
        def filled(x, *a):
            return x

    class char(object):
        @staticmethod
        def strip(x):
            return str(x).strip()

    @staticmethod
    def array(x, *a, **k):
        return _IntBox(x)


class _Sink(object):
    def __init__(self):
        self.pieces = []

    def flush(self):
        pass


class WriterLoop(Obligation):
    """the data-writing loop of ncf2uamiv executed on a byte-counting sink:
    every data record is [marker][ione][name 40][cells float32][marker] with
    both markers equal to the bytes between them, for a source variable of
    the given dtype and an unbounded number of cells per layer"""
    mode = 'int'
    validate_paths = 2
    stubs = ('file sink (byte counts and integer values of every tofile '
             'call)', 'np.array / np.ma.filled / np.char.strip / '
             'ndarray.astype value boxes')
    any_violation_confirms = True
    encoding_fragile = True          # AST-extracted loop on stub objects

    def fallback_inputs(self):
        return [{}, {'nx': 1, 'ny': 1}, {'nx': 7, 'ny': 5}]

    def __init__(self, srcdt, nspec, nz):
        self.srcdt, self.nspec, self.nz = srcdt, nspec, nz
        self.name = 'writer-loop[src=%s,nspec=%d,nz=%d]' % (srcdt, nspec, nz)
        self.bounds = {'cells per layer': 'unbounded', 'nspec': nspec,
                       'nz': nz, 'T': 1, 'source dtype': srcdt}

    def sym(self, ctx, h):
        import ast
        import hashlib
        sp = loader.TwinSpace()
        W = sp.twin('PseudoNetCDF.camxfiles.uamiv.Write')
        self._space = None
        node, path = loader.get_function_ast(
            'PseudoNetCDF.camxfiles.uamiv.Write', 'ncf2uamiv')
        loops = [st for st in node.body if isinstance(st, ast.For) and any(
            isinstance(c, ast.Attribute) and c.attr == 'tofile'
            for c in ast.walk(st))]
        if len(loops) != 1:
            raise loader.HarnessError(
                'ncf2uamiv: expected one top-level loop writing records, '
                'found %d' % len(loops))
        mod = ast.Module(body=loops, type_ignores=[])
        mod = loader._Rewrite().visit(mod)
        ast.fix_missing_locations(mod)
        code = compile(mod, path + ':<data loop>', 'exec')
        text = ast.unparse(loops[0])
        self._info = {'file': 'src/PseudoNetCDF/camxfiles/uamiv/Write.py',
                      'qualname': 'ncf2uamiv', 'statements': [text],
                      'sha256': hashlib.sha256(text.encode())
                      .hexdigest()[:16]}
        cells = ctx.int('cells', 1)
        nx = ctx.int('nx', 1, 4096)
        ny = ctx.int('ny', 1, 4096)
        T = 1
        sink = _Sink()
        nc = type('F', (), {})()
        nc.variables = _Vars(_SrcVar(cells, self.srcdt), T)
        nc.dimensions = {'LAY': range(self.nz)}
        names = ['SP%d' % i for i in range(self.nspec)]
        spc_hdr = [{'DATA': [_Piece(W._spc_fmt.itemsize, 'name')
                             for _ in names]}]
        env = dict(W.__dict__)
        env.update({'np': _SinkNP, 'ncffile': nc, 'outfile': sink,
                    '__builtins__': sp.builtins, 'nz': self.nz,
                    'NLAYS': self.nz, 'nspec': self.nspec,
                    'NROWS': ny, 'NCOLS': nx,
                    'spc_names': names, 'spc_hdr': spc_hdr,
                    'time_hdr': [_Piece(W._time_hdr_fmt.itemsize, 'time')
                                 for _ in range(T)]})
        try:
            exec(code, env)
        except Exception as ex:
            raise loader.HarnessError(
                'the data loop of ncf2uamiv uses something the sink does '
                'not model: %r' % (ex,))
        lay = layouts.UamivLayout(1, 1, 1, cells, nx, ny, 2001, 0, 1, 24)
        pcs = sink.pieces
        nrec = self.nspec * self.nz
        ok_shape = len(pcs) > 1 and pcs[0].kind == 'time' and \
            (len(pcs) - 1) % nrec == 0
        h.claim('one-time-record-then-%d-data-records' % nrec,
                z3.BoolVal(bool(ok_shape)))
        if not ok_shape:
            return
        k = (len(pcs) - 1) // nrec
        for r in range(nrec):
            grp = pcs[1 + r * k:1 + (r + 1) * k]
            first, last = grp[0], grp[-1]
            tot = 0
            for g in grp:
                tot = tot + g.nbytes
            marks = first.kind == 'int' and last.kind == 'int' and \
                first.dtype == '>i4' and last.dtype == '>i4'
            h.claim('rec%d:markers-are-big-endian-int32' % r,
                    z3.BoolVal(bool(marks)))
            if not marks:
                continue
            h.claim('rec%d:record-size' % r, symx._b(tot == lay.P))
            h.claim('rec%d:start-marker' % r,
                    symx._b(first.value == tot - 8))
            h.claim('rec%d:end-marker' % r, symx._b(last.value == tot - 8))
            data = [g for g in grp if g.kind == 'data']
            okd = len(data) == 1 and data[0].dtype == '>f4'
            h.claim('rec%d:payload-big-endian-float32' % r,
                    z3.BoolVal(bool(okd)))
            if okd:
                h.claim('rec%d:payload-size' % r,
                        symx._b(data[0].nbytes == 4 * cells))
        h.observe('ok', True)

    def real(self, inputs):
        return _write_and_walk(inputs, self.srcdt, self.nspec, self.nz)


class FullSizeMemmap(c14.CutUamiv):
    """memmap reader at the full file length: exactly T steps"""

    def fallback_inputs(self):
        return [{'T': 1}, {'T': 2}, {'T': 5}]

    def __init__(self, nspec, nz, ny, nx, fname='AVERAGE'):
        c14.CutUamiv.__init__(self, nspec, nz, ny, nx, None, fname)
        self.name = 'reader-memmap-full[nspec=%d,nz=%d,ny=%d,nx=%d,%s]' % (
            nspec, nz, ny, nx, fname)

    def sym(self, ctx, h):
        nspec, nz, ny, nx, _ = self.p
        run, info, holder, sp = self.kernel()
        self._space = None
        T = ctx.int('T', 1, 10 ** 6)
        lay = self._layout(T)
        me = c14.header_maps(holder, lay)
        env = dict(sp.twin('PseudoNetCDF.camxfiles.uamiv.Memmap').__dict__)
        env.update({'self': me,
                    'open': lambda *a, **k: c14.SizedFile(lay.length)})
        self._info = info
        try:
            out = run(env)
        except ValueError as ex:
            h.candidate('raised-on-valid-file', str(ex)[:80])
            return
        h.claim('layers', z3.BoolVal(int(out['out_nz']) == nz))
        h.claim('grid', z3.BoolVal((int(out['out_nx']), int(out['out_ny']),
                                    int(out['out_nspec'])) ==
                                   (nx, ny, nspec)))
        h.claim('steps', symx._b(out['out_ntimes'] == T))
        h.claim('header-offset', symx._b(out['out_offset'] == lay.H))
        h.observe('ntimes', out['out_ntimes'])

    def real(self, inputs):
        import warnings
        nspec, nz, ny, nx, _ = self.p
        T = min(int(frac_of(inputs.get('T', 2))), 50)
        lay = layouts.UamivLayout(nspec, nz, T, nx * ny, nx, ny, 2001, 0, 1,
                                  24, name=self.fname)
        viol = {}
        d = tempfile.mkdtemp(prefix='verif_c09_')
        path = os.path.join(d, 'r.uamiv')
        try:
            data = lay.write_real(path)
            with warnings.catch_warnings():
                warnings.simplefilter('ignore')
                from PseudoNetCDF.camxfiles.uamiv.Memmap import uamiv as MM
                try:
                    mm = MM(path)
                    nt = len(mm.dimensions['TSTEP'])
                    if nt != T:
                        viol['steps'] = '%d steps read, %d encoded' % (nt, T)
                    if len(mm.dimensions['LAY']) != nz:
                        viol['layers'] = '%d layers read, %d encoded' % (
                            len(mm.dimensions['LAY']), nz)
                    for si, sn in enumerate(lay.spcnames):
                        got = np.array(mm.variables[sn.strip()])
                        if not np.array_equal(got, data[:, si]):
                            viol['payload'] = 'values differ from encoder'
                except Exception as ex:
                    viol['raised-on-valid-file'] = repr(ex)[:200]
        finally:
            for fn in os.listdir(d):
                os.remove(os.path.join(d, fn))
            os.rmdir(d)
        return {'obs': {'ntimes': T}, 'violations': viol}


class ReadWind(Obligation):
    """wind memmap reader: the step and layer counts it derives from the
    record sizes and the file length (RecordFile walk + size arithmetic, real
    source on a symbolic record file) equal the encoded ones, for an
    enumerated number of cells per layer"""
    mode = 'int'
    validate_paths = 4
    max_paths = 300
    stubs = ('FortranFileUtil.unpack_from_file (layout oracle)',
             'file object (symbolic offset)',
             'np.memmap (only the stagger flag word is read at open time)')
    any_violation_confirms = True
    CMAX = 24

    def __init__(self, nz, T, dummy, stagger=True):
        self.nz, self.T, self.dummy, self.stagger = nz, T, dummy, stagger
        self.name = 'reader-wind[nz=%d,T=%d,dummy=%s,%s]' % (
            nz, T, dummy, 'stagger' if stagger else 'nostagger')
        self.bounds = {'nz': nz, 'T': T, 'cells per layer': '2..%d' % self.CMAX,
                       'dummy record': 'one word (as in the sample file and '
                       'the library writer)'}
        self._space = None

    def space(self):
        if self._space is None:
            self._space = loader.TwinSpace(stubs={
                'PseudoNetCDF.pncwarn': common.warn_stub(common.WarnRec())})
            ffu = self._space.twin('PseudoNetCDF.camxfiles.FortranFileUtil')
            ffu.unpack_from_file = lambda fmt, f: f.model_unpack(fmt)
            self._space.twin('PseudoNetCDF.camxfiles.wind.Memmap')
        return self._space

    def sym(self, ctx, h):
        sp = self.space()
        M = sp.twin('PseudoNetCDF.camxfiles.wind.Memmap')
        # one cell per layer makes a data record as long as the one-word
        # dummy record: such a file is ambiguous in this header-less format.
        # The reader stores len(COL): the cell count is enumerated by the
        # solver (2..CMAX), the size arithmetic stays symbolic until then
        rows = 1
        cols = ctx.int('cols', 2, self.CMAX)
        cells = cols
        date0 = ctx.int('date0', 1001, 99300)
        h0 = ctx.int('h0', 0, 23)
        ctx.assume(date0.e % 1000 >= 1, check=False)
        ctx.assume(date0.e % 1000 <= 300, check=False)
        dw = 1 if self.dummy == 'one' else cells
        lay = layouts.WindLayout(self.nz, self.T, cells, dw, date0, h0 * 100,
                                 self.stagger)
        f = layouts.SymFile(ctx, lay)
        f.eof_raises = True

        class _MM(object):
            def __getitem__(self, k):
                return np.float32(0.0)
        M.memmap = lambda *a, **k: _MM()
        import sys
        sys.setprofile(sp.profile())
        try:
            try:
                w = M.wind(f, rows, cols)
            except Exception as ex:
                h.candidate('open-raised:' + type(ex).__name__,
                            repr(ex)[:200])
                return
            nt = len(w.dimensions['TSTEP'])
            nl = len(w.dimensions['LAY'])
        finally:
            sys.setprofile(None)
        h.claim('layers', z3.BoolVal(int(nl) == self.nz))
        h.claim('steps', z3.BoolVal(int(nt) == self.T))
        h.observe('steps', int(nt))

    def real(self, inputs):
        import warnings
        rows = min(int(frac_of(inputs.get('rows', 1))), 64)
        cols = min(int(frac_of(inputs.get('cols', 2))), 64)
        cells = rows * cols
        date0 = int(frac_of(inputs.get('date0', 2001)))
        h0 = int(frac_of(inputs.get('h0', 0)))
        dw = 1 if self.dummy == 'one' else cells
        lay = layouts.WindLayout(self.nz, self.T, cells, dw, date0, h0 * 100,
                                 self.stagger)
        viol = {}
        obs = {}
        d = tempfile.mkdtemp(prefix='verif_c09_')
        path = os.path.join(d, 'w.wind')
        try:
            data = lay.write_real(path, rows, cols)
            with warnings.catch_warnings():
                warnings.simplefilter('ignore')
                from PseudoNetCDF.camxfiles.wind.Memmap import wind
                try:
                    w = wind(path, rows, cols)
                    nt = len(w.dimensions['TSTEP'])
                    obs['steps'] = nt
                    if nt != self.T:
                        viol['steps'] = '%d steps read, %d encoded' % (
                            nt, self.T)
                    if len(w.dimensions['LAY']) != self.nz:
                        viol['layers'] = '%d layers read, %d encoded' % (
                            len(w.dimensions['LAY']), self.nz)
                    if not viol:
                        for k in ('U', 'V'):
                            got = np.asarray(w.variables[k][:], dtype='f')
                            if got.shape != data[k].shape or \
                                    not np.array_equal(got, data[k]):
                                viol['payload'] = '%s differs from the ' \
                                    'encoder' % k
                except Exception as ex:
                    viol['open-raised:' + type(ex).__name__] = repr(ex)[:200]
        finally:
            for fn in os.listdir(d):
                os.remove(os.path.join(d, fn))
            os.rmdir(d)
        return {'obs': obs, 'violations': viol, 'grid': (rows, cols)}


def obligations(tier):
    obs = [WriterMarkers()]
    for dt in ('f', 'd'):
        obs.append(WriterLoop(dt, 2, 2))
    if tier == 'thorough':
        for dt in ('f', 'd', 'i', 'h'):
            obs.append(WriterLoop(dt, 1, 1))
            obs.append(WriterLoop(dt, 3, 2))
    for g in [(1, 1, 1, 1), (2, 1, 1, 2), (1, 2, 2, 1), (2, 2, 2, 3),
              (1, 2, 2, 1, 'EMISSIONS'), (1, 5, 1, 5, 'EMISSIONS'),
              (2, 1, 1, 2, 'AIRQUALITY'), (1, 2, 1, 1, 'INSTANT')]:
        obs.append(FullSizeMemmap(*g))
    for nspec, nz, T in ((1, 1, 2), (2, 1, 2), (1, 2, 3)) + (
            ((2, 2, 3),) if tier == 'thorough' else ()):
        o = c13.ReadUamiv(nspec, nz, T, 'hours')
        o.name = 'reader-record-' + o.name
        obs.append(o)
    obs += metmap.full_obligations(tier)
    for nz, T in ((1, 2), (2, 3), (1, 6)):
        obs.append(ReadWind(nz, T, 'one'))
    if tier == 'thorough':
        for nz, T in ((1, 8), (2, 6), (3, 4), (2, 10)):
            obs.append(ReadWind(nz, T, 'one'))
        obs.append(ReadWind(2, 3, 'one', False))
    # file-header span of the gridded writer and the record walk of the
    # lateral-boundary writer (obligations of checks/c08.py: header counts
    # and dates must match the content; bytes walked by an independent
    # record parser)
    from . import c08
    for et in (True, False):
        o = c08.TimeRoundTrip(2004, 2, et)
        o.name = 'writer-header-span[uamiv,' + o.name.split('[', 1)[1]
        obs.append(o)
    # header dates when the end of a step lies days after its begin
    o = c08.TimeRoundTrip(2003, 2, False, step_h=72)
    o.name = 'writer-header-span[uamiv,' + o.name.split('[', 1)[1]
    obs.append(o)
    o = c08.LatBndTimeRoundTrip(2004, 2)
    o.name = 'writer-walk[lateral_boundary,2004,T=2]'
    obs.append(o)
    # met writers -> reference layout (the same obligations C08 uses)
    from . import metwrite
    for o in metwrite.obligations(tier):
        if tier == 'quick' and o.year != 2004:
            continue
        o.name = 'writer-' + o.name
        obs.append(o)
    return obs
