"""C15 -- format auto-detection depends only on the file, not on history.

Encoded: _getreader.py getreader / registerreader / getreaderdict (twin).  The
registry is a pool of stub reader classes; isMine(reader, file) is an
uninterpreted predicate (one z3 Bool per reader/file pair); the history of
earlier opens is a sequence of symbolic choices from a pool of paths."""
import os
import tempfile

import z3

from verifx import symx, loader
from verifx.harness import Obligation
from verifx.symx import frac_of
from . import common

PROPERTY = 'C15'
LEVEL = 'model_checking'
ASSUMPTIONS = [
    'isMine is a pure predicate of (reader, file): modelled as one arbitrary '
    'Boolean per pair, the same on every call (disk I/O of the real isMine '
    'methods is outside)',
    'registry = pool of r stub readers registered the way class creation '
    'does (short name first), history = up to h opens from a pool of paths '
    'with and without registered suffixes',
    'NOT claimed: equality of auto-detected and explicitly named opens on '
    'real files of every format (isMine on real bytes is file I/O)',
]

MANIFEST = {
    'category': 'model_checking',
    'technique': 'symbolic execution of the real getreader/registerreader '
                 'source with isMine as uninterpreted Booleans; history and '
                 'probe symbolic; selection after history compared with '
                 'selection from the pristine registry; replay on the real '
                 'module with stub readers',
    'text': 'Bounded symbolic checking: for r<=4 registered readers, a pool '
            'of 5 paths (suffix naming a reader, an alias, or none), every '
            'history of h<=3 earlier opens and every probe, and EVERY '
            'assignment of isMine truth values, the reader selected for the '
            'probe equals the one selected from the untouched registry and '
            'the registry (contents and order) is unchanged by opens.'
            ' Also: one open with an explicitly named format and one re-registration of a registered reader as history; the magic-number test of the netCDF-derived readers (netcdf.isMine, run whole) asked twice about one path whose content changed answers from the second content only.',
    'note': 'Trusted: z3; os.path.splitext/isfile are the real ones. The '
            'clause "auto-detected equals explicitly named for real files" '
            'is not encodable (file I/O) and not claimed.',
}

POOL = ['a.R1', 'b.R2', 'c', 'd.R3', 'e.R1']
READERS = ['R0', 'R1', 'R2', 'R3']


def make_readers(mfun):
    """stub reader classes; mfun(reader_name, path) -> bool-like"""
    out = []
    for rn in READERS:
        def mk(rn):
            class R(object):
                def __init__(self, *a, **k):
                    pass

                @classmethod
                def isMine(cls, path, *a, **k):
                    return mfun(rn, os.path.basename(path))
            R.__name__ = rn
            return R
        out.append((rn, mk(rn)))
    return out


class Detect(Obligation):
    mode = 'bool'
    validate_paths = 10
    max_paths = 40000

    def __init__(self, h, probe=None, first=None):
        self.h = h
        self.pin_probe, self.pin_first = probe, first
        self.name = 'detect[h=%d,probe=%s,first=%s]' % (h, probe, first)
        self.bounds = {'readers': len(READERS), 'paths': POOL, 'history': h}
        self._space = None
        self.dir = None

    def _dir(self):
        if self.dir is None:
            self.dir = tempfile.mkdtemp(prefix='verif_c15_')
            for p in POOL:
                open(os.path.join(self.dir, p), 'w').close()
        return self.dir

    def space(self):
        # a fresh twin per path: module-level state (the registry, anything
        # a change might add next to it) must not leak between paths
        self._space = None
        if self._space is None:
            self._wr = common.WarnRec()
            import types
            import warnings as _w
            self._space = loader.TwinSpace(stubs={
                'PseudoNetCDF.pncwarn': common.warn_stub(self._wr)})
        return self._space

    def _run(self, mod, readers, hist, probe):
        """returns (selected after history, selected pristine, registry ok)"""
        sp = getattr(self, '_space', None)
        if sp is None or mod not in list(sp.modules.values()):
            return self._run0(mod, readers, hist, probe)
        # the twin: record which functions of the real source are executed
        import sys
        sys.setprofile(sp.profile())
        try:
            return self._run0(mod, readers, hist, probe)
        finally:
            sys.setprofile(None)

    def _run0(self, mod, readers, hist, probe):
        d = self._dir()
        base = list(readers)
        # registry as class creation builds it: registerreader inserts at 0
        mod._readers[:] = []
        for rn, cls in base:
            mod.registerreader(rn, cls)
        reg0 = list(mod._readers)

        def sel(p):
            try:
                return mod.getreader(os.path.join(d, p)).__name__
            except TypeError:
                return None
        pristine = sel(probe)
        regs_ok = list(mod._readers) == reg0
        # restore before running the history (pristine selection must not
        # count as history)
        mod._readers[:] = reg0
        for p in hist:
            if isinstance(p, tuple) and p[0] == 'openfmt':
                # ('openfmt', path, k): pncopen with the format named
                try:
                    mod.pncopen(os.path.join(d, p[1]), format=base[p[2]][0])
                except Exception:
                    pass
                regs_ok = regs_ok and list(mod._readers) == reg0
                continue
            if isinstance(p, tuple):
                # ('register', k): registering reader k again, same name and
                # class -- the set of registered readers does not change
                rn, cls = base[p[1]]
                mod.registerreader(rn, cls)
                regs_ok = regs_ok and sorted(
                    k for k, v in mod._readers) == sorted(
                    k for k, v in reg0)
                continue
            sel(p)
            regs_ok = regs_ok and list(mod._readers) == reg0
        after = sel(probe)
        again = sel(probe)
        return pristine, after, again, regs_ok

    def sym(self, ctx, h):
        sp = self.space()
        mod = sp.twin('PseudoNetCDF._getreader')
        M = {}

        def mfun(rn, base):
            key = 'M_%s_%s' % (rn, base.replace('.', '_'))
            if key not in M:
                M[key] = ctx.bool(key)
            return M[key]
        # fixed creation order of the Booleans (deterministic names)
        for rn in READERS:
            for p in POOL:
                mfun(rn, p)
        readers = make_readers(mfun)
        hidx = [ctx.int('h%d' % i, 0, len(POOL) - 1) for i in range(self.h)]
        pidx = ctx.int('probe', 0, len(POOL) - 1)
        if self.pin_probe is not None:
            ctx.assume(pidx.e == self.pin_probe, check=False)
        if self.pin_first is not None and self.h:
            ctx.assume(hidx[0].e == self.pin_first, check=False)
        hist = [POOL[int(i)] for i in hidx]
        probe = POOL[int(pidx)]
        import warnings
        with warnings.catch_warnings():
            warnings.simplefilter('ignore')
            pristine, after, again, regs_ok = self._run(mod, readers, hist,
                                                        probe)
        h.observe('pristine', pristine)
        h.observe('after', after)
        h.claim('selection-independent-of-history',
                z3.BoolVal(pristine == after))
        h.claim('selection-repeatable', z3.BoolVal(after == again))
        h.claim('registry-unchanged-by-opens', z3.BoolVal(regs_ok))

    def real(self, inputs):
        import warnings
        with warnings.catch_warnings():
            warnings.simplefilter('ignore')
            from PseudoNetCDF import _getreader as mod

        def mfun(rn, base):
            return bool(inputs.get('M_%s_%s' % (rn, base.replace('.', '_')),
                                   False))
        readers = make_readers(mfun)
        hist = getattr(self, '_hist', None) or [
            POOL[int(frac_of(inputs.get('h%d' % i, 0)))]
            for i in range(self.h)]
        probe = POOL[int(frac_of(inputs.get('probe', 0)))]
        saved = list(mod._readers)
        import importlib
        try:
            with warnings.catch_warnings():
                warnings.simplefilter('ignore')
                # module state as in a fresh process: whatever the module
                # keeps besides the registry list starts from its initial
                # value for every replay
                importlib.reload(mod)
                pristine, after, again, regs_ok = self._run(
                    mod, readers, hist, probe)
        finally:
            with warnings.catch_warnings():
                warnings.simplefilter('ignore')
                importlib.reload(mod)
            mod._readers[:] = saved
        viol = {}
        if pristine != after:
            viol['selection-independent-of-history'] = \
                'probe %s: %s from the pristine registry, %s after opening ' \
                '%s' % (probe, pristine, after, hist)
        if after != again:
            viol['selection-repeatable'] = '%s then %s' % (after, again)
        if not regs_ok:
            viol['registry-unchanged-by-opens'] = 'registry changed by an open'
        return {'obs': {'pristine': pristine, 'after': after},
                'violations': viol, 'history': hist, 'probe': probe}


class ReRegister(Detect):
    """registering a reader that is already registered (same name, same
    class) leaves the selection for every probe as it was"""

    def __init__(self, probe):
        Detect.__init__(self, 1, probe)
        self.name = 'detect-after-reregistration[probe=%s]' % probe
        self.bounds = {'readers': len(READERS), 'paths': POOL,
                       'history': 're-registration of any one reader'}

    def sym(self, ctx, h):
        sp = self.space()
        mod = sp.twin('PseudoNetCDF._getreader')
        M = {}

        def mfun(rn, base):
            key = 'M_%s_%s' % (rn, base.replace('.', '_'))
            if key not in M:
                M[key] = ctx.bool(key)
            return M[key]
        for rn in READERS:
            for p in POOL:
                mfun(rn, p)
        readers = make_readers(mfun)
        k = ctx.int('k', 0, len(READERS) - 1)
        pidx = ctx.int('probe', 0, len(POOL) - 1)
        ctx.assume(pidx.e == self.pin_probe, check=False)
        hist = [('register', int(k))]
        probe = POOL[int(pidx)]
        import warnings
        with warnings.catch_warnings():
            warnings.simplefilter('ignore')
            pristine, after, again, regs_ok = self._run(mod, readers, hist,
                                                        probe)
        h.observe('pristine', pristine)
        h.observe('after', after)
        h.claim('selection-independent-of-history',
                z3.BoolVal(pristine == after))
        h.claim('selection-repeatable', z3.BoolVal(after == again))
        h.claim('registry-unchanged-by-opens', z3.BoolVal(regs_ok))

    def real(self, inputs):
        self._hist = [('register', int(frac_of(inputs.get('k', 0))))]
        try:
            return Detect.real(self, inputs)
        finally:
            self._hist = None


class OpenNamed(ReRegister):
    """an earlier pncopen(path, format=name) leaves the auto-detection of
    every probe as it was"""

    def __init__(self, probe):
        Detect.__init__(self, 1, probe)
        self.name = 'detect-after-named-open[probe=%s]' % probe
        self.bounds = {'readers': len(READERS), 'paths': POOL,
                       'history': 'one open of any pool file with any '
                                  'reader named'}

    def sym(self, ctx, h):
        sp = self.space()
        mod = sp.twin('PseudoNetCDF._getreader')
        M = {}

        def mfun(rn, base):
            key = 'M_%s_%s' % (rn, base.replace('.', '_'))
            if key not in M:
                M[key] = ctx.bool(key)
            return M[key]
        for rn in READERS:
            for p in POOL:
                mfun(rn, p)
        readers = make_readers(mfun)
        k = ctx.int('k', 0, len(READERS) - 1)
        hp = ctx.int('h0', 0, len(POOL) - 1)
        pidx = ctx.int('probe', 0, len(POOL) - 1)
        ctx.assume(pidx.e == self.pin_probe, check=False)
        hist = [('openfmt', POOL[int(hp)], int(k))]
        probe = POOL[int(pidx)]
        import warnings
        with warnings.catch_warnings():
            warnings.simplefilter('ignore')
            pristine, after, again, regs_ok = self._run(mod, readers, hist,
                                                        probe)
        h.observe('pristine', pristine)
        h.observe('after', after)
        h.claim('selection-independent-of-history',
                z3.BoolVal(pristine == after))
        h.claim('selection-repeatable', z3.BoolVal(after == again))
        h.claim('registry-unchanged-by-opens', z3.BoolVal(regs_ok))

    def real(self, inputs):
        self._hist = [('openfmt', POOL[int(frac_of(inputs.get('h0', 0)))],
                       int(frac_of(inputs.get('k', 0))))]
        try:
            return Detect.real(self, inputs)
        finally:
            self._hist = None


class MagicStateless(Obligation):
    """the magic-number test every netCDF-derived reader inherits
    (core/_files.py netcdf.isMine, run whole): asked twice about the same
    path whose content changed in between, the second answer depends on the
    second content only"""
    mode = 'int'
    validate_paths = 4
    name = 'magic-number-test[same path, content replaced]'
    bounds = {'content kinds': 'classic netCDF magic / other bytes, two '
              'consecutive questions about one path'}
    stubs = ('open(): a binary file whose leading bytes are those of the '
             'symbolic content kind',)
    KINDS = (b'CDF\x01\x00\x00\x00\x00', b'\x00\x00\x01\x30AVER')

    def sym(self, ctx, h):
        import io
        sp = loader.TwinSpace()
        state = {'kind': 0}
        sp.builtins['open'] = lambda path, mode='r', *a, **k: io.BytesIO(
            self.KINDS[state['kind']])
        F = sp.twin('PseudoNetCDF.core._files')
        self._space = sp
        k1 = ctx.int('k1', 0, 1)
        k2 = ctx.int('k2', 0, 1)
        got = []
        for k in (k1, k2):
            state['kind'] = int(k)
            got.append(bool(F.netcdf.isMine('/data/run.bin')))
        h.claim('first-answer', z3.BoolVal(got[0]) == (k1.e == 0))
        h.claim('second-answer-from-second-content',
                z3.BoolVal(got[1]) == (k2.e == 0))
        h.observe('answers', got)

    def real(self, inputs):
        import os
        import shutil
        import tempfile
        import warnings
        from verifx.symx import frac_of
        k1 = int(frac_of(inputs.get('k1', 0))) % 2
        k2 = int(frac_of(inputs.get('k2', 1))) % 2
        viol = {}
        d = tempfile.mkdtemp(prefix='verif_c15_')
        path = os.path.join(d, 'run.bin')
        got = []
        try:
            with warnings.catch_warnings():
                warnings.simplefilter('ignore')
                import importlib
                import PseudoNetCDF.core._files as RF
                RF = importlib.reload(RF) if False else RF
                for k in (k1, k2):
                    with open(path, 'wb') as fo:
                        fo.write(self.KINDS[k] + b'\0' * 64)
                    got.append(bool(RF.netcdf.isMine(path)))
            if got[0] != (k1 == 0):
                viol['first-answer'] = 'content kind %d answered %r' % (
                    k1, got[0])
            if got[1] != (k2 == 0):
                viol['second-answer-from-second-content'] = \
                    'contents %d then %d at one path: answers %r' % (
                        k1, k2, got)
        finally:
            shutil.rmtree(d, ignore_errors=True)
        return {'obs': {'answers': got}, 'violations': viol}

    any_violation_confirms = True


def obligations(tier):
    obs = [MagicStateless()]
    n = len(POOL)
    for p in range(n):
        obs.append(Detect(1, p))
        for f in range(n):
            obs.append(Detect(2, p, f))
            if tier == 'thorough':
                obs.append(Detect(3, p, f))
    for p in range(n):
        obs.append(ReRegister(p))
        obs.append(OpenNamed(p))
    return obs
