"""C13 -- memory-mapped and record-based CAMx readers agree (uamiv family).

Encoded: camxfiles/uamiv/Read.py (uamiv.__init__/__readheader/timerange/seek/
__recordposition/__timerecords/__spcrecords/__layerrecords), camxfiles/
timetuple.py, camxfiles/FortranFileUtil.py RecordFile -- all real source,
executed on a *symbolic record file*: seek/tell keep a symbolic offset, the
struct-unpack boundary is replaced by a layout oracle that returns the value
the CAMx specification puts at that offset.  The Memmap reader's size
arithmetic is AST-sliced from uamiv/Memmap.py.  Both are compared with the
reference layout, hence with each other."""
import z3
import numpy as np

from verifx import symx, loader
from verifx.harness import Obligation
from verifx.symx import frac_of
from . import common
from . import layouts

PROPERTY = 'C13'
LEVEL = 'model_checking'
ASSUMPTIONS = [
    'file = CAMx gridded average layout per the CAMx user guide (reference '
    'layout written in checks/layouts.py, independent of the library)',
    'struct.unpack is replaced by the layout oracle (values at an offset); '
    'payload values are not modelled (bit copies)',
    'nspec, nz, T enumerated (<=2, <=2, <=3 quick); cells per layer nx*ny '
    'unbounded symbolic; start date/time symbolic within one year; hourly '
    'steps, times in hours as the CAMx format prescribes (the HHMM variant '
    'some tools write is outside)',
    'encoded: the uamiv (gridded average/emissions) record reader and the '
    'generic 3-D (one3d = humidity, vertical_diffusivity) record reader; '
    'temperature/height_pressure/wind record readers are not (they mix the '
    'record file with np.memmap on the file name, see DESIGN)',
    'variable contents: FortranFileUtil.read_into is replaced by a stub '
    'that fills the destination with the symbolic offset of the record the '
    'reader positioned itself on, so each exposed cell is traced to the '
    'record it came from; grids are concrete (incl. length-1 axes) there',
    'one3d: times in HHMM as CAMx met files have them, steps of 1, 6, 12 '
    '(and 24 thorough) hours, start day <= 300 of any year',
]

MANIFEST = {
    'category': 'model_checking',
    'technique': 'symbolic execution of the real uamiv Read/RecordFile/'
                 'timetuple source on a symbolic record file (offsets as z3 '
                 'integers, struct boundary = layout oracle) plus AST-sliced '
                 'size arithmetic of uamiv Memmap; SMT comparison with the '
                 'reference layout; replay by writing a real file',
    'text': 'Bounded symbolic checking for the gridded (uamiv) format: for '
            'all grid sizes (cells per layer unbounded), start dates/times '
            'and both time-unit conventions, with nspec<=2, nz<=2, T<=3, the '
            'record reader exposes the same step count, layer count and time '
            'sequence as the reference layout (= what the memmap reader '
            'derives from the file size), its time iteration terminates, and '
            'every (time, species, layer) seek lands on the byte offset the '
            'layout prescribes; every cell of every variable comes from the '
            'record of its (step, species, layer), also for EMISSIONS files '
            'and grids with length-1 axes. Same for the generic 3-D met '
            'record reader (layer and step discovery by scanning, nz<=3, '
            'T<=6, 1/6/12-hourly).'
            ' Also: INSTANT files with several time steps.',
    'note': 'Trusted: z3, the reference layout, the struct-boundary oracle. '
            'temperature, height_pressure and wind record readers are not '
            'encoded (not claimed).',
}


class ReadUamiv(Obligation):
    mode = 'int'
    validate_paths = 4
    max_paths = 400
    stubs = ('FortranFileUtil.unpack_from_file (layout oracle)',
             'file object (symbolic offset)')

    def __init__(self, nspec, nz, T, conv, name='AVERAGE   '):
        self.nspec, self.nz, self.T, self.conv = nspec, nz, T, conv
        self.fname = name
        self.name = 'read-uamiv[nspec=%d,nz=%d,T=%d,%s]' % (nspec, nz, T, conv)
        if name.strip() != 'AVERAGE':
            self.name = self.name[:-1] + ',%s]' % name.strip()
        self.bounds = {'nspec': nspec, 'nz': nz, 'T': T, 'time units': conv,
                       'cells per layer': 'unbounded'}
        self._space = None

    def space(self):
        if self._space is None:
            self._space = loader.TwinSpace(stubs={
                'PseudoNetCDF.pncwarn': common.warn_stub(common.WarnRec())})
            ffu = self._space.twin('PseudoNetCDF.camxfiles.FortranFileUtil')
            ffu.unpack_from_file = lambda fmt, f: f.model_unpack(fmt)
            self._space.twin('PseudoNetCDF.camxfiles.uamiv.Read')
        return self._space

    def _layout(self, ctx):
        step = 1 if self.conv == 'hours' else 100
        eod = 24 if self.conv == 'hours' else 2400
        cells = ctx.int('cells', 1)
        nx = ctx.int('nx', 1)
        ny = ctx.int('ny', 1)
        date0 = ctx.int('date0', 1001, 99300)
        h0 = ctx.int('h0', 0, 23)
        ctx.assume(date0.e % 1000 >= 1, check=False)
        ctx.assume(date0.e % 1000 <= 300, check=False)
        lay = layouts.UamivLayout(self.nspec, self.nz, self.T, cells, nx, ny,
                                  date0, h0 * step, step, eod, self.fname)
        return lay

    def sym(self, ctx, h):
        sp = self.space()
        Read = sp.twin('PseudoNetCDF.camxfiles.uamiv.Read')
        lay = self._layout(ctx)
        f = layouts.SymFile(ctx, lay)
        import sys
        sys.setprofile(sp.profile())
        try:
            try:
                rd = Read.uamiv(f)
            except Exception as ex:
                h.candidate('open-raised:' + type(ex).__name__,
                            repr(ex)[:200])
                return
            h.claim('step-count', symx._b(rd.time_step_count == self.T))
            h.claim('layers', symx._b(rd.nlayers == self.nz))
            h.claim('nx-ny', z3.And(symx._b(rd.nx == lay.nx),
                                    symx._b(rd.ny == lay.ny)))
            h.observe('T', rd.time_step_count)
            # time iteration terminates and yields the layout's times
            times = []
            it = rd.timerange()
            for _ in range(self.T + 2):
                try:
                    times.append(next(it))
                except StopIteration:
                    break
            h.claim('time-iteration-terminates',
                    z3.BoolVal(len(times) == self.T))
            for ti, (d, t) in enumerate(times[:self.T]):
                rd_, rt_ = lay.times[ti][0], lay.times[ti][1]
                h.claim('time[%d]' % ti, z3.And(symx._b(d == rd_),
                                                symx._b(t == rt_)))
            # every seek lands where the layout says
            for ti in range(self.T):
                d, t = lay.times[ti][0], lay.times[ti][1]
                for s in range(self.nspec):
                    for k in range(1, self.nz + 1):
                        lab = 'seek[t=%d,s=%d,k=%d]' % (ti, s, k)
                        try:
                            rd.seek(d, t, spc=s, k=k)
                        except Exception as ex:
                            h.candidate(lab + ':raised:' + type(ex).__name__,
                                        repr(ex)[:160])
                            continue
                        pos = rd.rffile.record_start
                        h.claim(lab, symx._b(pos == lay.data_record(ti, s, k)))
        finally:
            sys.setprofile(None)

    def real(self, inputs):
        """write a real file with the library-independent encoder, read it
        with both readers"""
        import numpy as np
        import os
        import tempfile
        import warnings
        step = 1 if self.conv == 'hours' else 100
        eod = 24 if self.conv == 'hours' else 2400
        nx = int(frac_of(inputs.get('nx', 2)))
        ny = int(frac_of(inputs.get('ny', 1)))
        cells = int(frac_of(inputs.get('cells', nx * ny)))
        if nx * ny != cells or cells > 4096:
            # the symbolic run treats the cell count as one unknown: pick a
            # consistent small grid for the real file
            nx, ny = min(cells, 64) if cells < 4096 else 3, 1
            cells = nx * ny
        date0 = int(frac_of(inputs.get('date0', 2001)))
        h0 = int(frac_of(inputs.get('h0', 0)))
        lay = layouts.UamivLayout(self.nspec, self.nz, self.T, cells, nx, ny,
                                  date0, h0 * step, step, eod, self.fname)
        viol = {}
        d = tempfile.mkdtemp(prefix='verif_c13_')
        path = os.path.join(d, 'f.uamiv')
        try:
            data = lay.write_real(path)
            with warnings.catch_warnings():
                warnings.simplefilter('ignore')
                from PseudoNetCDF.camxfiles.uamiv.Read import uamiv as RD
                from PseudoNetCDF.camxfiles.uamiv.Memmap import uamiv as MM
                try:
                    mm = MM(path)
                    mshape = mm.variables[lay.spcnames[0].strip()].shape
                except Exception as ex:
                    viol['memmap-open-raised'] = repr(ex)[:200]
                    mm = None
                try:
                    rd = RD(path)
                    if rd.time_step_count != self.T:
                        viol['step-count'] = 'Read reports %r steps, file ' \
                            'has %d' % (rd.time_step_count, self.T)
                    else:
                        for si, sn in enumerate(lay.spcnames):
                            try:
                                v = rd.variables[sn.strip()]
                            except Exception as ex:
                                viol['seek[t=*,s=%d,k=*]:raised:%s' % (
                                    si, type(ex).__name__)] = repr(ex)[:200]
                                continue
                            exp = data[:, si].reshape(v.shape)
                            if not np.array_equal(np.asarray(v), exp):
                                viol['seek[t=*,s=%d,k=*]' % si] = \
                                    'record reader data differ from the ' \
                                    'written data'
                            if mm is not None and not np.array_equal(
                                    np.asarray(mm.variables[sn.strip()]),
                                    np.asarray(v)):
                                viol['readers-differ[%d]' % si] = \
                                    'memmap and record readers differ'
                except Exception as ex:
                    viol['open-raised:' + type(ex).__name__] = repr(ex)[:200]
        finally:
            for fn in os.listdir(d):
                os.remove(os.path.join(d, fn))
            os.rmdir(d)
        return {'obs': {'T': self.T}, 'violations': viol,
                'file': {'nx': nx, 'ny': ny, 'date0': date0, 'h0': h0}}

    any_violation_confirms = True


class ReadVarData(ReadUamiv):
    """the variables of the record reader: every cell of every species
    variable comes from the data record the layout puts at (step, species,
    layer), in (TSTEP, LAY, ROW, COL) order, for concrete small grids that
    include length-1 axes; start date and hour symbolic"""
    validate_paths = 3
    stubs = ReadUamiv.stubs + (
        'FortranFileUtil.read_into (fills the destination with the symbolic '
        'offset of the record it was positioned on)',)

    def __init__(self, nspec, nz, T, ny, nx, name='AVERAGE   '):
        ReadUamiv.__init__(self, nspec, nz, T, 'hours', name)
        self.ny, self.nx = ny, nx
        self.name = 'read-uamiv-data[nspec=%d,nz=%d,T=%d,ny=%d,nx=%d,%s]' % (
            nspec, nz, T, ny, nx, name.strip())
        self.bounds = {'nspec': nspec, 'nz': nz, 'T': T, 'ny': ny, 'nx': nx}

    def space(self):
        if self._space is None:
            self._space = loader.TwinSpace(objfloat=True, stubs={
                'PseudoNetCDF.pncwarn': common.warn_stub(common.WarnRec())})
            ffu = self._space.twin('PseudoNetCDF.camxfiles.FortranFileUtil')
            ffu.unpack_from_file = lambda fmt, f: f.model_unpack(fmt)

            def read_into(rf, dest, id_fmt, data_fmt='f'):
                dest[...] = rf.record_start
                return None
            ffu.read_into = read_into
            rd = self._space.twin('PseudoNetCDF.camxfiles.uamiv.Read')
            if 'read_into' in rd.__dict__:
                rd.read_into = read_into
        return self._space

    def _layout(self, ctx):
        date0 = ctx.int('date0', 1001, 99300)
        h0 = ctx.int('h0', 0, 23)
        ctx.assume(date0.e % 1000 >= 1, check=False)
        ctx.assume(date0.e % 1000 <= 300, check=False)
        return layouts.UamivLayout(self.nspec, self.nz, self.T,
                                   self.nx * self.ny, self.nx, self.ny,
                                   date0, h0, 1, 24, self.fname)

    def sym(self, ctx, h):
        sp = self.space()
        Read = sp.twin('PseudoNetCDF.camxfiles.uamiv.Read')
        lay = self._layout(ctx)
        f = layouts.SymFile(ctx, lay)
        import sys
        sys.setprofile(sp.profile())
        try:
            try:
                rd = Read.uamiv(f)
            except Exception as ex:
                h.candidate('open-raised:' + type(ex).__name__,
                            repr(ex)[:200])
                return
            h.claim('dimensions', z3.BoolVal(
                (len(rd.dimensions['TSTEP']), len(rd.dimensions['LAY']),
                 len(rd.dimensions['ROW']), len(rd.dimensions['COL'])) ==
                (self.T, self.nz, self.ny, self.nx)))
            for si, sn in enumerate(lay.spcnames):
                lab = 'var[%d]' % si
                try:
                    v = rd.variables[sn.strip()]
                except Exception as ex:
                    h.candidate(lab + ':raised:' + type(ex).__name__,
                                repr(ex)[:160])
                    continue
                shape = tuple(v.shape)
                h.claim(lab + ':shape', z3.BoolVal(
                    shape == (self.T, self.nz, self.ny, self.nx)))
                if shape != (self.T, self.nz, self.ny, self.nx):
                    continue
                arr = np.asarray(v)
                for ti in range(self.T):
                    for k in range(self.nz):
                        cells = [symx._b(arr[ti, k, j, i] ==
                                         lay.data_record(ti, si, k + 1))
                                 for j in range(self.ny)
                                 for i in range(self.nx)]
                        h.claim(lab + ':from-record[t=%d,k=%d]' % (ti, k + 1),
                                z3.And(*cells))
            h.observe('T', rd.time_step_count)
        finally:
            sys.setprofile(None)

    def real(self, inputs):
        inputs = dict(inputs)
        inputs.update({'nx': self.nx, 'ny': self.ny,
                       'cells': self.nx * self.ny})
        return ReadUamiv.real(self, inputs)


class ReadOne3d(Obligation):
    """generic 3-D met record reader (camxfiles/one3d/Read.py) on a symbolic
    record file: layer count, step count, time sequence, record positions
    and (concrete rows x cols) the origin of every cell of the variable"""
    mode = 'int'
    validate_paths = 3
    max_paths = 400
    stubs = ReadUamiv.stubs + (
        'FortranFileUtil.read_into (fills the destination with the symbolic '
        'offset of the record it was positioned on)',)
    any_violation_confirms = True

    FORMATS = {
        'one3d': ('PseudoNetCDF.camxfiles.one3d.Read', 'one3d',
                  'PseudoNetCDF.camxfiles.one3d.Memmap', 'one3d'),
        'height_pressure': (
            'PseudoNetCDF.camxfiles.height_pressure.Read', 'height_pressure',
            'PseudoNetCDF.camxfiles.height_pressure.Memmap',
            'height_pressure'),
    }

    def __init__(self, nz, T, rows, cols, step=100, fmt='one3d'):
        self.nz, self.T, self.rows, self.cols = nz, T, rows, cols
        self.step, self.fmt = step, fmt
        # long files: one decision per record visited while scanning
        self.max_decisions = max(self.max_decisions, 400 * T)
        self.name = 'read-%s[nz=%d,T=%d,rows=%d,cols=%d,step=%d]' % (
            fmt, nz, T, rows, cols, step)
        self.bounds = {'nz': nz, 'T': T, 'rows': rows, 'cols': cols,
                       'step (HHMM)': step,
                       'start': 'any day 1..300 of any year, any hour'}
        self._space = None

    def space(self):
        if self._space is None:
            self._space = loader.TwinSpace(objfloat=True, stubs={
                'PseudoNetCDF.pncwarn': common.warn_stub(common.WarnRec())})
            ffu = self._space.twin('PseudoNetCDF.camxfiles.FortranFileUtil')
            ffu.unpack_from_file = lambda fmt, f: f.model_unpack(fmt)

            def read_into(rf, dest, id_fmt, data_fmt='f'):
                dest[...] = rf.record_start
                return None
            ffu.read_into = read_into
            rd = self._space.twin(self.FORMATS[self.fmt][0])
            if 'read_into' in rd.__dict__:
                rd.read_into = read_into
        return self._space

    def _mk_layout(self, date0, time0):
        return layouts.MetLayout(self.fmt, self.nz, self.T,
                                 self.rows * self.cols, date0, time0,
                                 self.step)

    def _layout(self, ctx):
        date0 = ctx.int('date0', 1001, 99300)
        h0 = ctx.int('h0', 0, 23)
        ctx.assume(date0.e % 1000 >= 1, check=False)
        ctx.assume(date0.e % 1000 <= 300, check=False)
        return self._mk_layout(date0, h0 * 100)

    def sym(self, ctx, h):
        sp = self.space()
        Read = sp.twin(self.FORMATS[self.fmt][0])
        lay = self._layout(ctx)
        f = layouts.SymFile(ctx, lay)
        f.eof_raises = True
        import sys
        sys.setprofile(sp.profile())
        try:
            try:
                rd = getattr(Read, self.FORMATS[self.fmt][1])(
                    f, self.rows, self.cols)
            except Exception as ex:
                h.candidate('open-raised:' + type(ex).__name__,
                            repr(ex)[:200])
                return
            h.claim('layers', symx._b(rd.nlayers == self.nz))
            h.claim('step-count', symx._b(rd.time_step_count == self.T))
            h.claim('cells', symx._b(rd.cell_count == self.rows * self.cols))
            h.observe('T', rd.time_step_count)
            times = []
            it = rd.timerange()
            for _ in range(self.T + 2):
                try:
                    times.append(next(it))
                except StopIteration:
                    break
            h.claim('time-iteration-terminates',
                    z3.BoolVal(len(times) == self.T))
            for ti, (d, t) in enumerate(times[:self.T]):
                h.claim('time[%d]' % ti, z3.And(
                    symx._b(d == lay.times[ti][0]),
                    symx._b(t == lay.times[ti][1])))
            for vname in sorted(set(v for v, _ in lay.seq)):
                try:
                    v = rd.variables[vname]
                except Exception as ex:
                    h.candidate('var:raised:' + type(ex).__name__,
                                repr(ex)[:160])
                    return
                want = (self.T, self.nz, self.rows, self.cols)
                h.claim('var[%s]:shape' % vname,
                        z3.BoolVal(tuple(v.shape) == want))
                if tuple(v.shape) != want:
                    return
                arr = np.asarray(v)
                for ti in range(self.T):
                    for k in range(self.nz):
                        ri = lay.seq.index((vname, k))
                        start = ti * lay.B + ri * lay.P
                        cells = [symx._b(arr[ti, k, j, i] == start)
                                 for j in range(self.rows)
                                 for i in range(self.cols)]
                        h.claim('var[%s]:from-record[t=%d,k=%d]' % (
                            vname, ti, k + 1), z3.And(*cells))
        finally:
            sys.setprofile(None)

    def real(self, inputs):
        """independent encoder -> both readers"""
        import os
        import tempfile
        import warnings
        date0 = int(frac_of(inputs.get('date0', 2001)))
        h0 = int(frac_of(inputs.get('h0', 0)))
        lay = self._mk_layout(date0, h0 * 100)
        vnames = sorted(set(v for v, _ in lay.seq))
        viol = {}
        d = tempfile.mkdtemp(prefix='verif_c13_')
        path = os.path.join(d, 'f.met')
        try:
            data = lay.write_fields(path, self.rows, self.cols)
            with warnings.catch_warnings():
                warnings.simplefilter('ignore')
                import importlib
                fm = self.FORMATS[self.fmt]
                RD = getattr(importlib.import_module(fm[0]), fm[1])
                MM = getattr(importlib.import_module(fm[2]), fm[3])
                mv = None
                try:
                    mm = MM(path, self.rows, self.cols)
                    mv = dict((k, np.asarray(mm.variables[k]))
                              for k in vnames)
                    mt = np.asarray(mm.variables['TFLAG'])[:, 0, :]
                except Exception as ex:
                    viol['memmap-raised'] = repr(ex)[:200]
                try:
                    rd = RD(path, self.rows, self.cols)
                except Exception as ex:
                    viol['open-raised:' + type(ex).__name__] = repr(ex)[:200]
                    rd = None
                if rd is not None:
                    if rd.time_step_count != self.T:
                        viol['step-count'] = 'Read reports %r steps, file ' \
                            'has %d' % (rd.time_step_count, self.T)
                    if rd.nlayers != self.nz:
                        viol['layers'] = 'Read reports %r layers, file has ' \
                            '%d' % (rd.nlayers, self.nz)
                    try:
                        for k in vnames:
                            rv = np.asarray(rd.variables[k])
                            if k == 'SURFTEMP' and rv.ndim == 4:
                                rv = rv[:, 0]       # length-1 SURF axis
                            if rv.shape != data[k].shape or \
                                    not np.array_equal(rv, data[k]):
                                viol['var[%s]:from-record[t=*,k=*]' % k] = \
                                    'record reader data differ from the ' \
                                    'encoded data'
                            if mv is not None and (
                                    mv[k].shape != rv.shape or
                                    not np.array_equal(mv[k], rv)):
                                viol['readers-differ'] = \
                                    'memmap and record readers differ'
                    except Exception as ex:
                        viol['var:raised:' + type(ex).__name__] = \
                            repr(ex)[:200]
                    ts = list(rd.timerange())
                    if len(ts) != self.T:
                        viol['time-iteration-terminates'] = \
                            '%d times iterated' % len(ts)
                    elif mv is not None:
                        for ti, (dd, tt) in enumerate(ts):
                            y2 = int(dd) // 1000
                            yyyy = (1900 if y2 >= 70 else 2000) + y2
                            exp = (yyyy * 1000 + int(dd) % 1000,
                                   int(tt) * 100)
                            if (int(mt[ti, 0]), int(mt[ti, 1])) != exp:
                                viol['time[%d]' % ti] = \
                                    'memmap TFLAG %r, record reader %r' % (
                                        mt[ti].tolist(), (dd, tt))
        finally:
            for fn in os.listdir(d):
                os.remove(os.path.join(d, fn))
            os.rmdir(d)
        return {'obs': {'T': self.T}, 'violations': viol,
                'file': {'date0': date0, 'h0': h0}}


class ReadTemperature(ReadOne3d):
    """temperature record reader: structure discovery with RecordFile
    (layer count by scanning, end time from the last record via previous()),
    data through np.memmap at byte positions it computes -- the memmap stub
    returns, for each mapped word, its byte offset in the file, so every
    exposed cell is traced to the byte it came from"""
    stubs = ReadUamiv.stubs + (
        'np.memmap(name, dtype, mode, offset, shape) (array of the byte '
        'offsets of the mapped words)',)
    FORMATS = dict(ReadOne3d.FORMATS)
    FORMATS['temperature'] = (
        'PseudoNetCDF.camxfiles.temperature.Read', 'temperature',
        'PseudoNetCDF.camxfiles.temperature.Memmap', 'temperature')

    def __init__(self, nz, T, rows, cols, step=100):
        ReadOne3d.__init__(self, nz, T, rows, cols, step, 'temperature')

    def sym(self, ctx, h):
        sp = self.space()
        Read = sp.twin(self.FORMATS[self.fmt][0])
        lay = self._layout(ctx)
        f = layouts.SymFile(ctx, lay)
        f.eof_raises = True

        def memmap(name, dtype='>f', mode='r', offset=0, shape=None):
            n = int(shape[0]) if isinstance(shape, (tuple, list)) else \
                int(shape)
            a = np.empty(n, dtype=object)
            for w in range(n):
                a[w] = offset + 4 * w
            from verifx import shim
            return a.view(shim.SymNDArray)
        Read.memmap = memmap
        import sys
        sys.setprofile(sp.profile())
        try:
            try:
                rd = Read.temperature(f, self.rows, self.cols)
            except Exception as ex:
                h.candidate('open-raised:' + type(ex).__name__,
                            repr(ex)[:200])
                return
            h.claim('layers', symx._b(rd.nlayers == self.nz))
            h.claim('step-count', symx._b(rd.time_step_count == self.T))
            h.claim('cells', symx._b(rd.cell_count == self.rows * self.cols))
            h.observe('T', rd.time_step_count)
            times = []
            it = rd.timerange()
            for _ in range(self.T + 2):
                try:
                    times.append(next(it))
                except StopIteration:
                    break
            h.claim('time-iteration-terminates',
                    z3.BoolVal(len(times) == self.T))
            for ti, (d, t) in enumerate(times[:self.T]):
                h.claim('time[%d]' % ti, z3.And(
                    symx._b(d == lay.times[ti][0]),
                    symx._b(t == lay.times[ti][1])))
            for vname in ('SURFTEMP', 'AIRTEMP'):
                try:
                    v = rd.variables[vname]
                except Exception as ex:
                    h.candidate('var:raised:' + type(ex).__name__,
                                repr(ex)[:160])
                    return
                nk = 1 if vname == 'SURFTEMP' else self.nz
                want = (self.T, nk, self.rows, self.cols)
                h.claim('var[%s]:shape' % vname,
                        z3.BoolVal(tuple(v.shape) == want))
                if tuple(v.shape) != want:
                    return
                arr = np.asarray(v)
                for ti in range(self.T):
                    for k in range(nk):
                        ri = lay.seq.index(
                            (vname, None if vname == 'SURFTEMP' else k))
                        start = ti * lay.B + ri * lay.P + 12
                        cells = [symx._b(
                            arr[ti, k, j, i] ==
                            start + 4 * (j * self.cols + i))
                            for j in range(self.rows)
                            for i in range(self.cols)]
                        h.claim('var[%s]:from-bytes[t=%d,k=%d]' % (
                            vname, ti, k + 1), z3.And(*cells))
        finally:
            sys.setprofile(None)

    def real(self, inputs):
        r = ReadOne3d.real(self, inputs)
        return r


class ReadWindRec(ReadOne3d):
    """wind record reader on a symbolic record file (one-word dummy record,
    at least two cells per layer)"""
    FORMATS = {'wind': ('PseudoNetCDF.camxfiles.wind.Read', 'wind',
                        'PseudoNetCDF.camxfiles.wind.Memmap', 'wind')}

    def __init__(self, nz, T, rows, cols, step=100, stagger=True):
        ReadOne3d.__init__(self, nz, T, rows, cols, step, 'wind')
        self.stagger = stagger
        if not stagger:
            self.name = self.name[:-1] + ',8-byte time header]'

    def _mk_layout(self, date0, time0):
        return layouts.WindLayout(self.nz, self.T, self.rows * self.cols, 1,
                                  date0, time0, self.stagger, self.step)

    def sym(self, ctx, h):
        sp = self.space()
        Read = sp.twin(self.FORMATS[self.fmt][0])
        lay = self._layout(ctx)
        f = layouts.SymFile(ctx, lay)
        f.eof_raises = True
        import sys
        sys.setprofile(sp.profile())
        try:
            try:
                rd = Read.wind(f, self.rows, self.cols)
            except Exception as ex:
                h.candidate('open-raised:' + type(ex).__name__,
                            repr(ex)[:200])
                return
            h.claim('layers', symx._b(rd.nlayers == self.nz))
            h.claim('step-count', symx._b(rd.time_step_count == self.T))
            h.claim('cells', symx._b(rd.cell_count == self.rows * self.cols))
            h.observe('T', rd.time_step_count)
            times = []
            it = rd.timerange()
            for _ in range(self.T + 2):
                try:
                    times.append(next(it))
                except StopIteration:
                    break
            h.claim('time-iteration-terminates',
                    z3.BoolVal(len(times) == self.T))
            for ti, (d, t) in enumerate(times[:self.T]):
                h.claim('time[%d]' % ti, z3.And(
                    symx._b(d == lay.times[ti][0]),
                    symx._b(t == lay.times[ti][1])))
            for ui, vname in enumerate(('U', 'V')):
                try:
                    v = rd.variables[vname]
                except Exception as ex:
                    h.candidate('var:raised:' + type(ex).__name__,
                                repr(ex)[:160])
                    return
                want = (self.T, self.nz, self.rows, self.cols)
                h.claim('var[%s]:shape' % vname,
                        z3.BoolVal(tuple(v.shape) == want))
                if tuple(v.shape) != want:
                    return
                arr = np.asarray(v)
                for ti in range(self.T):
                    for k in range(self.nz):
                        start = lay.data_record(ti, k, ui)
                        cells = [symx._b(arr[ti, k, j, i] == start)
                                 for j in range(self.rows)
                                 for i in range(self.cols)]
                        h.claim('var[%s]:from-record[t=%d,k=%d]' % (
                            vname, ti, k + 1), z3.And(*cells))
        finally:
            sys.setprofile(None)

    def real(self, inputs):
        import os
        import tempfile
        import warnings
        date0 = int(frac_of(inputs.get('date0', 2001)))
        h0 = int(frac_of(inputs.get('h0', 0)))
        lay = self._mk_layout(date0, h0 * 100)
        viol = {}
        d = tempfile.mkdtemp(prefix='verif_c13_')
        path = os.path.join(d, 'f.wind')
        try:
            data = lay.write_real(path, self.rows, self.cols)
            with warnings.catch_warnings():
                warnings.simplefilter('ignore')
                from PseudoNetCDF.camxfiles.wind.Read import wind as RD
                from PseudoNetCDF.camxfiles.wind.Memmap import wind as MM
                mv = None
                try:
                    mm = MM(path, self.rows, self.cols)
                    mv = dict((k, np.asarray(mm.variables[k])) for k in 'UV')
                except Exception as ex:
                    viol['memmap-raised'] = repr(ex)[:200]
                try:
                    rd = RD(path, self.rows, self.cols)
                except Exception as ex:
                    viol['open-raised:' + type(ex).__name__] = repr(ex)[:200]
                    rd = None
                if rd is not None:
                    if rd.time_step_count != self.T:
                        viol['step-count'] = 'Read reports %r steps, file ' \
                            'has %d' % (rd.time_step_count, self.T)
                    if rd.nlayers != self.nz:
                        viol['layers'] = 'Read reports %r layers, file has ' \
                            '%d' % (rd.nlayers, self.nz)
                    try:
                        for k in 'UV':
                            rv = np.asarray(rd.variables[k])
                            if rv.shape != data[k].shape or \
                                    not np.array_equal(rv, data[k]):
                                viol['var[%s]:from-record[t=*,k=*]' % k] = \
                                    'record reader data differ from the ' \
                                    'encoded data'
                            if mv is not None and (
                                    mv[k].shape != rv.shape or
                                    not np.array_equal(mv[k], rv)):
                                viol['readers-differ'] = \
                                    'memmap and record readers differ'
                    except Exception as ex:
                        viol['var:raised:' + type(ex).__name__] = \
                            repr(ex)[:200]
                    ts = list(rd.timerange())
                    if len(ts) != self.T:
                        viol['time-iteration-terminates'] = \
                            '%d times iterated' % len(ts)
        finally:
            for fn in os.listdir(d):
                os.remove(os.path.join(d, fn))
            os.rmdir(d)
        return {'obs': {'T': self.T}, 'violations': viol,
                'file': {'date0': date0, 'h0': h0}}


def obligations(tier):
    obs = []
    Ts = (1, 2, 3) if tier == 'quick' else (1, 2, 3, 4, 5)
    for conv in ('hours',):
        for nspec in (1, 2):
            for nz in (1, 2):
                for T in Ts:
                    if tier == 'quick' and nspec == 2 and nz == 2 and T == 3:
                        continue
                    obs.append(ReadUamiv(nspec, nz, T, conv))
    # the other file kinds sharing the layout (header name field)
    for name, nspec, nz, T in (('EMISSIONS', 2, 1, 2), ('EMISSIONS', 1, 2, 2),
                               ('INSTANT', 1, 1, 2), ('INSTANT', 2, 1, 3)):
        obs.append(ReadUamiv(nspec, nz, T, 'hours', name.ljust(10)))
    # variable contents, grids with and without length-1 axes
    grids = [(2, 2, 2, 2, 3), (1, 1, 1, 1, 1), (1, 2, 1, 1, 2),
             (2, 1, 2, 3, 1)]
    if tier == 'thorough':
        grids += [(2, 2, 3, 2, 2), (3, 1, 1, 2, 2), (1, 3, 2, 1, 1),
                  (1, 1, 4, 1, 1)]
    for name in ('AVERAGE', 'EMISSIONS'):
        for g in grids:
            obs.append(ReadVarData(*g, name=name.ljust(10)))
    obs.append(ReadVarData(*grids[0], name='INSTANT'.ljust(10)))
    # generic 3-D met files (no header: structure discovered by scanning)
    one = [(1, 2, 1, 1), (2, 2, 1, 2), (2, 3, 2, 1), (3, 2, 2, 2),
           (1, 4, 1, 1, 1200), (2, 3, 1, 2, 600), (1, 6, 1, 1, 1200)]
    if tier == 'thorough':
        one += [(1, 4, 1, 1), (2, 4, 2, 2), (3, 3, 1, 3), (4, 2, 1, 1),
                (1, 8, 1, 1, 600), (1, 30, 1, 1), (2, 5, 1, 1, 1200),
                (1, 3, 1, 1, 2400)]
    for g in one:
        obs.append(ReadOne3d(*g))
    hp = [(1, 2, 1, 1), (2, 3, 1, 2), (2, 2, 2, 1), (1, 4, 1, 1, 1200)]
    if tier == 'thorough':
        hp += [(3, 2, 2, 2), (2, 4, 1, 1, 600), (1, 6, 1, 1, 1200)]
    for g in hp:
        obs.append(ReadOne3d(*g, fmt='height_pressure'))
    for g in hp:
        obs.append(ReadTemperature(*g))
    wd = [(1, 2, 1, 2), (2, 3, 1, 2), (2, 2, 2, 2), (1, 4, 1, 2, 1200)]
    if tier == 'thorough':
        wd += [(3, 2, 2, 2), (2, 4, 1, 4, 600), (1, 6, 1, 2, 1200)]
    for g in wd:
        obs.append(ReadWindRec(*g))
    # old files without the stagger word in the time header
    obs.append(ReadWindRec(2, 3, 1, 3, 100, False))
    return obs
