"""catalogue of public transformation operations with symbolic in-domain
arguments; shared by C01 (well-formedness + completion) and C05 (isolation)."""
import numpy as np
import z3

from verifx import symx
from verifx.symx import frac_of
from . import common
from .common import FileSpec, VarSpec


def spec1():
    return FileSpec(
        [('t', 2, True), ('z', 1, False), ('x', 3, False)],
        [VarSpec('A', ('t', 'z', 'x'), attrs={'units': 'ppb'}),
         VarSpec('M', ('t', 'x'), masked=(1, 4), attrs={'units': 'K'}),
         VarSpec('x', ('x',), coord=True, attrs={'units': 'm'}),
         VarSpec('T', ('t',), kind='int'),
         VarSpec('S', ())],
        attrs={'title': 'test', 'version': 3}, label='s1')


def spec2():
    return FileSpec(
        [('t', 1, True), ('y', 2, False), ('x', 2, False)],
        [VarSpec('B', ('y', 'x'), attrs={'units': '1'}),
         VarSpec('A', ('t', 'y', 'x')),
         VarSpec('M', ('x',), masked=(0,)),
         VarSpec('y', ('y',), coord=True)],
        attrs={'title': 'two'}, label='s2')


def spec3():
    # rank-1 only, a zero... no: smallest useful: one unlimited dim of 3
    return FileSpec(
        [('t', 3, True)],
        [VarSpec('A', ('t',)), VarSpec('M', ('t',), masked=(2,)),
         VarSpec('t', ('t',), coord=True)], label='s3')


def spec4():
    # two length-1 dimensions (one unlimited) and a rank-4 variable with
    # pairwise different lengths
    return FileSpec(
        [('t', 1, True), ('z', 1, False), ('y', 3, False), ('x', 2, False)],
        [VarSpec('A', ('t', 'z', 'y', 'x'), attrs={'units': 'ppb'}),
         VarSpec('B', ('z', 'x')),
         VarSpec('M', ('t', 'y'), masked=(1,)),
         VarSpec('x', ('x',), coord=True)],
        attrs={'title': 'four'}, label='s4')


SPECS = {'s1': spec1, 's2': spec2, 's3': spec3, 's4': spec4}


class Env(object):
    def __init__(self, F, fn, symbolic):
        self.F, self.fn, self.symbolic = F, fn, symbolic


def _g(inputs, name, dflt=0):
    return int(frac_of(inputs.get(name, dflt)))


class Op(object):
    name = None
    needs_second = False
    returns_file = True
    # dims whose unlimited flag / presence the op is documented to change
    def applicable(self, spec):
        return True

    def args(self, ctx, spec):
        return {}

    def conc(self, inputs, spec):
        return {}

    def prepare(self, spec, vals, symbolic):
        return vals

    def run(self, f, f2, a, env):
        raise NotImplementedError

    def surviving(self, spec, a):
        """dimension names expected to survive with their unlimited flag"""
        return [d[0] for d in spec.dims]


class Copy(Op):
    name = 'copy'

    def run(self, f, f2, a, env):
        return f.copy()


class SliceInt(Op):
    def __init__(self, d):
        self.d = d
        self.name = 'slice_int(%s)' % d

    def applicable(self, spec):
        return self.d in [x[0] for x in spec.dims]

    def args(self, ctx, spec):
        n = spec.dimlen(self.d)
        return {'k': ctx.int('k', -n, n - 1)}

    def conc(self, inputs, spec):
        return {'k': _g(inputs, 'k')}

    def run(self, f, f2, a, env):
        return f.sliceDimensions(**{self.d: a['k']})


class SliceSlice(Op):
    def __init__(self, d, step=1):
        self.d, self.step = d, step
        self.name = 'slice_slice(%s,step=%d)' % (d, step)

    def applicable(self, spec):
        return self.d in [x[0] for x in spec.dims]

    def args(self, ctx, spec):
        n = spec.dimlen(self.d)
        return {'a': ctx.int('a', -n - 1, n + 1),
                'b': ctx.int('b', -n - 1, n + 1)}

    def conc(self, inputs, spec):
        return {'a': _g(inputs, 'a'), 'b': _g(inputs, 'b')}

    def run(self, f, f2, a, env):
        return f.sliceDimensions(**{self.d: slice(a['a'], a['b'], self.step)})


class SliceList(Op):
    def __init__(self, d):
        self.d = d
        self.name = 'slice_list(%s)' % d

    def applicable(self, spec):
        return self.d in [x[0] for x in spec.dims]

    def args(self, ctx, spec):
        n = spec.dimlen(self.d)
        return {'l0': ctx.int('l0', -n, n - 1), 'l1': ctx.int('l1', -n, n - 1)}

    def conc(self, inputs, spec):
        return {'l0': _g(inputs, 'l0'), 'l1': _g(inputs, 'l1')}

    def run(self, f, f2, a, env):
        return f.sliceDimensions(**{self.d: [int(a['l0']), int(a['l1'])]})


class SliceBool(Op):
    """a boolean mask over one dimension (an iterable, valid numpy index):
    which cells are kept is a symbolic bit pattern (at least one)"""

    def __init__(self, d):
        self.d = d
        self.name = 'slice_bool(%s)' % d

    def applicable(self, spec):
        return self.d in [x[0] for x in spec.dims]

    def args(self, ctx, spec):
        n = spec.dimlen(self.d)
        return {'bits': ctx.int('bits', 1, 2 ** n - 1)}

    def conc(self, inputs, spec):
        return {'bits': _g(inputs, 'bits', 1)}

    def run(self, f, f2, a, env):
        import numpy as real_np
        n = len(f.dimensions[self.d])
        b = int(a['bits'])
        m = real_np.array([bool(b >> i & 1) for i in range(n)])
        return f.sliceDimensions(**{self.d: m})


class SlicePoints(Op):
    name = 'slice_points'

    def applicable(self, spec):
        return len(spec.dims) >= 2

    def _dims(self, spec):
        return spec.dims[-2][0], spec.dims[-1][0]

    def args(self, ctx, spec):
        d1, d2 = self._dims(spec)
        n1, n2 = spec.dimlen(d1), spec.dimlen(d2)
        return {'p0': ctx.int('p0', -n1, n1 - 1), 'p1': ctx.int('p1', -n1,
                                                                n1 - 1),
                'q0': ctx.int('q0', -n2, n2 - 1), 'q1': ctx.int('q1', -n2,
                                                                n2 - 1)}

    def conc(self, inputs, spec):
        return dict((k, _g(inputs, k)) for k in ('p0', 'p1', 'q0', 'q1'))

    def run(self, f, f2, a, env):
        d1, d2 = [d for d in list(f.dimensions)[-2:]]
        return f.sliceDimensions(**{d1: [int(a['p0']), int(a['p1'])],
                                    d2: [int(a['q0']), int(a['q1'])]})

    def surviving(self, spec, a):
        return [d[0] for d in spec.dims]


class ApplyRed(Op):
    def __init__(self, d, r):
        self.d, self.r = d, r
        self.name = 'apply(%s=%s)' % (d, r)

    def applicable(self, spec):
        return self.d in [x[0] for x in spec.dims]

    def run(self, f, f2, a, env):
        return f.applyAlongDimensions(**{self.d: self.r})


class ApplyDiff(Op):
    def __init__(self, d):
        self.d = d
        self.name = 'apply(%s=diff)' % d

    def applicable(self, spec):
        return self.d in [x[0] for x in spec.dims] and spec.dimlen(self.d) >= 2

    def run(self, f, f2, a, env):
        return f.applyAlongDimensions(**{self.d: lambda x: np.diff(x)})


class Stack(Op):
    needs_second = True

    def __init__(self, d):
        self.d = d
        self.name = 'stack(%s)' % d

    def applicable(self, spec):
        return self.d in [x[0] for x in spec.dims]

    def run(self, f, f2, a, env):
        return f.stack(f2, self.d)


class Subset(Op):
    def __init__(self, exclude=False):
        self.exclude = exclude
        self.name = 'subset(exclude=%s)' % exclude

    def run(self, f, f2, a, env):
        return f.subsetVariables(['A'], exclude=self.exclude)


class RenameVar(Op):
    name = 'renameVariable'

    def run(self, f, f2, a, env):
        return f.renameVariable('A', 'A2')


class RenameDim(Op):
    name = 'renameDimension'

    def args(self, ctx, spec):
        return {'i': ctx.int('i', 0, len(spec.dims) - 1)}

    def conc(self, inputs, spec):
        return {'i': _g(inputs, 'i', len(spec.dims) - 1)}

    def run(self, f, f2, a, env):
        d = list(f.dimensions)[int(a['i'])]
        return f.renameDimension(d, d + '2')

    def surviving(self, spec, a):
        i = int(a['i'])
        return [d[0] for k, d in enumerate(spec.dims) if k != i]

    def renamed(self, spec, a):
        d = spec.dims[int(a['i'])][0]
        return {d + '2': d}


class InsertDim(Op):
    def __init__(self, before=None):
        self.before = before
        self.name = 'insertDimension(before=%s)' % before

    def args(self, ctx, spec):
        return {'n': ctx.int('n', 1, 2)}

    def conc(self, inputs, spec):
        return {'n': _g(inputs, 'n', 1)}

    def run(self, f, f2, a, env):
        kw = {}
        if self.before:
            kw['before'] = list(f.dimensions)[-1]
        return f.insertDimension(new=a['n'], **kw)


class RemoveSingleton(Op):
    def __init__(self, named=False):
        self.named = named
        self.name = 'removeSingleton(named=%s)' % named

    def args(self, ctx, spec):
        if not self.named:
            return {}
        return {'di': ctx.int('di', 0, len(spec.dims) - 1)}

    def conc(self, inputs, spec):
        return {'di': _g(inputs, 'di')} if self.named else {}

    def run(self, f, f2, a, env):
        if self.named:
            return f.removeSingleton(list(f.dimensions)[int(a['di'])])
        return f.removeSingleton()

    def surviving(self, spec, a):
        if self.named:
            k = spec.dims[int(a['di'])]
            return [d[0] for d in spec.dims if not (d[0] == k[0] and
                                                    d[1] == 1)]
        return [d[0] for d in spec.dims if d[1] != 1]


class Reorder(Op):
    """any permutation of the dimension order (symbolic choice)"""
    name = 'reorderDimensions'

    def applicable(self, spec):
        return len(spec.dims) >= 2

    def _perms(self, n):
        import itertools
        return list(itertools.permutations(range(n)))

    def args(self, ctx, spec):
        return {'pi': ctx.int('pi', 0, len(self._perms(len(spec.dims))) - 1)}

    def conc(self, inputs, spec):
        return {'pi': _g(inputs, 'pi')}

    def run(self, f, f2, a, env):
        ds = list(f.dimensions)
        perm = self._perms(len(ds))[int(a['pi'])]
        return f.reorderDimensions(ds, [ds[i] for i in perm])


class MaskGt(Op):
    name = 'mask(greater)'

    def args(self, ctx, spec):
        return {'thr': ctx.real('thr')}

    def conc(self, inputs, spec):
        return {'thr': float(frac_of(inputs.get('thr', 0)))}

    def run(self, f, f2, a, env):
        return f.mask(greater=a['thr'])


class MaskWhere(Op):
    """mask(where=<boolean array of the shape of the masked variable M>):
    one more cell masked (which one is symbolic)"""
    name = 'mask(where)'

    def applicable(self, spec):
        return any(v.name == 'M' for v in spec.vars)

    def _size(self, spec):
        v = [v for v in spec.vars if v.name == 'M'][0]
        n = 1
        for d in v.dims:
            n *= spec.dimlen(d)
        return n

    def args(self, ctx, spec):
        return {'k': ctx.int('k', 0, self._size(spec) - 1)}

    def conc(self, inputs, spec):
        return {'k': _g(inputs, 'k')}

    def run(self, f, f2, a, env):
        import numpy as real_np
        w = real_np.zeros(f.variables['M'].shape, dtype=bool)
        w.flat[int(a['k'])] = True
        return f.mask(where=w)


class Eval(Op):
    def __init__(self, expr, copyall=False, tag=''):
        self.expr, self.copyall = expr, copyall
        self.name = 'eval(%s,copyall=%s)' % (expr, copyall)

    def run(self, f, f2, a, env):
        return f.eval(self.expr, copyall=self.copyall)


class Add(Op):
    needs_second = True

    def __init__(self, op='+'):
        self.op = op
        self.name = 'binop(%s)' % op

    def run(self, f, f2, a, env):
        if self.op == '+':
            return f + f2
        if self.op == '*':
            return f * f2
        return f - f2


class Interp(Op):
    name = 'interpDimension'

    def applicable(self, spec):
        return spec.label == 's1'

    def prepare(self, spec, vals, symbolic):
        # the coordinate must be concrete: scipy's interp1d is C code
        vals = dict(vals)
        for i in range(spec.dimlen('x')):
            vals[('x', i)] = float(i)
        return vals

    def run(self, f, f2, a, env):
        return f.interpDimension('x', np.array([0.5, 1.5]))

    def surviving(self, spec, a):
        return [d[0] for d in spec.dims]


class CopyVariable(Op):
    """newf.copyVariable(var, key=..., dtype=...) for every variable"""
    def __init__(self, dtype):
        self.dtype = dtype
        self.name = 'copyVariable(dtype=%s)' % dtype

    def run(self, f, f2, a, env):
        out = f.copy(variables=False)
        for k, v in f.variables.items():
            if self.dtype == 'same':
                out.copyVariable(v, key=k, dtype=v.dtype.char)
            elif self.dtype == 'none':
                out.copyVariable(v, key=k)
            else:
                out.copyVariable(v, key=k + '_c', dtype=v.dtype)
        return out


class FnGetvar(Op):
    name = 'fn.getvarpnc'

    def run(self, f, f2, a, env):
        return env.fn.getvarpnc(f, ['A'])

    def surviving(self, spec, a):
        va = [v for v in spec.vars if v.name == 'A'][0]
        return list(va.dims)


class FnRemoveSingleton(Op):
    name = 'fn.removesingleton'

    def applicable(self, spec):
        return any(d[1] == 1 for d in spec.dims)

    def run(self, f, f2, a, env):
        one = [d for d, v in f.dimensions.items() if len(v) == 1][0]
        return env.fn.removesingleton(f, one)

    def surviving(self, spec, a):
        one = [d[0] for d in spec.dims if d[1] == 1][0]
        return [d[0] for d in spec.dims if d[0] != one]


class FnStack(Op):
    needs_second = True
    name = 'fn.stack_files'

    def run(self, f, f2, a, env):
        return env.fn.stack_files([f, f2], list(f.dimensions)[0])


class FnSliceDim(Op):
    name = 'fn.slice_dim'

    def args(self, ctx, spec):
        n = spec.dims[-1][1]
        return {'a': ctx.int('a', 0, n - 1)}

    def conc(self, inputs, spec):
        return {'a': _g(inputs, 'a')}

    def run(self, f, f2, a, env):
        d = list(f.dimensions)[-1]
        return env.fn.slice_dim(f, '%s,%s' % (d, a['a']))


class FnReduceDim(Op):
    name = 'fn.reduce_dim'

    def run(self, f, f2, a, env):
        d = list(f.dimensions)[-1]
        return env.fn.reduce_dim(f, '%s,mean' % d)


class FnMaskVals(Op):
    name = 'fn.mask_vals'

    def run(self, f, f2, a, env):
        return env.fn.mask_vals(f, 'greater,0.5')


def catalogue(tier):
    ops = [Copy()]
    for d in ('t', 'z', 'y', 'x'):
        ops += [SliceInt(d), SliceSlice(d), SliceList(d), SliceBool(d),
                ApplyRed(d, 'mean'),
                ApplyRed(d, 'max'), ApplyDiff(d), Stack(d)]
        if tier == 'thorough':
            ops += [SliceSlice(d, -1), SliceSlice(d, 2), ApplyRed(d, 'sum'),
                    ApplyRed(d, 'min'), ApplyRed(d, 'std')]
    ops += [SlicePoints(), Subset(False), Subset(True), RenameVar(),
            RenameDim(), InsertDim(), InsertDim(True), RemoveSingleton(),
            RemoveSingleton(True), Reorder(), MaskGt(), MaskWhere(),
            Eval('C = A * 2'), Eval('C = A * 2', True), Eval('C = A'),
            Eval('A = A[::-1]'), Eval('C = A[:]'), Eval('A = A'),
            Eval('C = A[:] + A[:]; D = C * C'),
            Add('+'), Add('*'), Interp(), CopyVariable('same'),
            CopyVariable('none'), CopyVariable('obj'), FnGetvar(), FnRemoveSingleton(),
            FnStack(), FnSliceDim(), FnReduceDim(), FnMaskVals()]
    return ops
