"""A small ARL packed-bit file written from the format description (index
record + one record per variable and level for every time, 50-byte labels,
one-byte differential codes), independent of the library's writer: replay
oracle for the reader clauses of C20 (fields within one step of the recorded
exponent, variable lists, level lists, times).  Adapted from the
demonstration of seeded change C20-r4Y (written by a sub-agent from the
property text and the format description only)."""
from datetime import datetime, timedelta
import numpy as np

NX, NY = 20, 15
LEVELS = [1.0, 0.95, 0.5]           # surface + 2 layers
SFCKEYS = ['PRSS', 'T02M']
LAYKEYS = ['UWND', 'TEMP']
START = datetime(1995, 10, 16, 0)


def encode(field):
    """reference encoder: returns codes, nexp, var1 and the decoded values"""
    f = field.astype('f').astype('d')
    d = max(np.abs(np.diff(f, axis=1)).max(), np.abs(np.diff(f[:, 0])).max())
    nexp = 0 if d == 0 else int(np.floor(np.log2(d))) + 2   # generous
    step = 2.0 ** (nexp - 7)
    codes = np.zeros(f.shape, 'uint8')
    dec = np.zeros(f.shape, 'd')
    col = f[0, 0]
    for j in range(f.shape[0]):
        old = col
        for i in range(f.shape[1]):
            c = int(np.floor((f[j, i] - old) / step + 127.5))
            assert 0 <= c <= 255
            codes[j, i] = c
            old = old + (c - 127) * step
            dec[j, i] = old
            if i == 0:
                col = old
    return codes, nexp, f[0, 0], dec


def label(t, lev, key, nexp, prec, var1):
    s = '%2d%2d%2d%2d%2d%2d%2d%-4s%4d%14.7E%14.7E' % (
        t.year % 100, t.month, t.day, t.hour, 0, lev, 99, key, nexp, prec,
        var1)
    assert len(s) == 50
    return s.encode('ascii')


def build(path, HOURS):
    rng = np.random.RandomState(20)
    recl = 50 + NX * NY
    yy, xx = np.mgrid[0:NY, 0:NX]
    expected = {}
    with open(path, 'wb') as out:
        for ti, h in enumerate(HOURS):
            t = START + timedelta(hours=h)
            recs = []
            sums = {}
            for li, lvl in enumerate(LEVELS):
                for key in (SFCKEYS if li == 0 else LAYKEYS):
                    field = (10. * (ti + 1) * np.sin(xx / 3. + li) +
                             5. * np.cos(yy / 2. + ti) +
                             rng.normal(size=(NY, NX)) + 100. * li)
                    codes, nexp, var1, dec = encode(field)
                    prec = 2.0 ** nexp / 254.
                    recs.append(label(t, li, key, nexp, prec, var1) +
                                codes.tobytes())
                    sums[li, key] = int(codes.astype('i8').sum()) % 255
                    expected[ti, li, key] = (dec, 2.0 ** (nexp - 7))
            vpart = ''
            for li, lvl in enumerate(LEVELS):
                keys = SFCKEYS if li == 0 else LAYKEYS
                vpart += ('%6.4f' % lvl)[:6] + '%2d' % len(keys)
                for key in keys:
                    vpart += '%-4s%3d ' % (key, sums[li, key])
            lenh = 108 + len(vpart)
            hdr = 'TEST%3d%2d' % (0, 1)
            #      POLLAT POLLON REFLAT REFLON GRIDX ORIENT TANLAT SYNCHX
            #      SYNCHY SYNCHLAT SYNCHLON RESERVED
            for v in (90., 0., 0.5, 0.5, 0., 0., 0., 1., 1., 20., -100., 0.):
                hdr += '%7.2f' % v
            hdr += '%3d%3d%3d%2d%4d' % (NX, NY, len(LEVELS), 1, lenh)
            assert len(hdr) == 108
            index = label(t, 0, 'INDX', 0, 0., 0.) + (hdr + vpart).encode()
            out.write(index.ljust(recl, b' '))
            for r in recs:
                assert len(r) == recl
                out.write(r)
    return expected


def read_back_problems(path, HOURS):
    """open the file with the library reader; list what differs"""
    from PseudoNetCDF.noaafiles._arl import arlpackedbit
    expected = build(path, HOURS)
    problems = {}
    f = arlpackedbit(path)
    keys = [k for k in f.variables.keys()
            if k not in ('time', 'x', 'y', 'z', 'x_bounds', 'y_bounds',
                         'crs')]
    if sorted(keys) != sorted(SFCKEYS + LAYKEYS):
        problems['variable-list'] = 'variable list %s' % keys
    z = np.asarray(f.variables['z'][:], dtype='d')
    if not np.allclose(z, LEVELS[1:], atol=1e-6) or \
            abs(float(f.SFCVGLVL) - LEVELS[0]) > 1e-6:
        problems['level-list'] = 'level list %s / %s' % (f.SFCVGLVL, z)
    for (ti, li, key), (dec, step) in expected.items():
        var = f.variables[key]
        got = np.asarray(var[ti] if li == 0 else var[ti, li - 1], dtype='d')
        err = np.abs(got - dec).max() / step
        if err > 1.0:
            problems['field-bound'] = '%s t=%d lev=%d off by %.2f steps' % (
                key, ti, li, err)
    tv = f.variables['time']
    units = tv.units
    if not units.startswith('hours since '):
        problems['time-units'] = units
        return problems
    ref = datetime.strptime(units[len('hours since '):].strip()[:19],
                            '%Y-%m-%d %H:%M:%S')
    got_times = [ref + timedelta(hours=float(h)) for h in np.asarray(tv[:])]
    want_times = [START + timedelta(hours=h) for h in HOURS]
    if got_times != want_times:
        problems['times'] = 'times read back as %s, file has %s' % (
            [t.strftime('%y%m%d%H') for t in got_times],
            [t.strftime('%y%m%d%H') for t in want_times])
    return problems
