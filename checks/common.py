"""shared helpers for the data-mode harnesses (C01-C06, C10, C11): building the
same small file on the twin stack (object arrays of symbolic scalars) and on the
real stack (float64), and comparing results."""
import itertools
import types

import numpy as np
import z3

from verifx import symx, loader
from verifx.symx import frac_of


class WarnRec(object):
    def __init__(self):
        self.msgs = []

    def warn(self, *a, **k):
        self.msgs.append(str(a[0]) if a else '')


def warn_stub(rec):
    pw = types.ModuleType('PseudoNetCDF.pncwarn')
    pw.warn = rec.warn
    pw.clean_showwarning = lambda *a, **k: None
    return pw


class VarSpec(object):
    def __init__(self, name, dims, masked=None, attrs=None, coord=False,
                 kind='real', fill=-999.0, declared=True):
        self.name = name
        # declared=False: a masked variable that carries no fill_value /
        # missing_value attribute (values attached directly, as several
        # readers do)
        self.declared = declared
        self.dims = tuple(dims)
        self.masked = masked    # None | tuple of flat indices that are masked
        self.attrs = dict(attrs or {})
        self.coord = coord
        self.kind = kind        # 'real' | 'int' | 'tag'
        self.fill = fill


class FileSpec(object):
    """dims: ordered list of (name, length, unlimited)"""

    def __init__(self, dims, variables, attrs=None, label=None):
        self.dims = list(dims)
        self.vars = list(variables)
        self.attrs = dict(attrs or {})
        self.label = label or 'x'.join(str(d[1]) for d in dims)

    def dimlen(self, name):
        for d in self.dims:
            if d[0] == name:
                return d[1]
        raise KeyError(name)

    def shape(self, v):
        return tuple(self.dimlen(d) for d in v.dims)

    def cells(self):
        for v in self.vars:
            n = int(np.prod(self.shape(v), dtype=int))
            for i in range(n):
                yield v, i


def sym_values(ctx, spec, prefix='d', lo=None, hi=None):
    """one fresh symbolic scalar per cell: name d_<var>_<flat>"""
    vals = {}
    for v, i in spec.cells():
        name = '%s_%s_%d' % (prefix, v.name, i)
        if v.kind == 'real':
            vals[(v.name, i)] = ctx.real(name, lo, hi)
        else:
            vals[(v.name, i)] = ctx.int(name, lo, hi)
    return vals


def concrete_values(spec, inputs, prefix='d'):
    """values for the real stack from a model (missing cells: distinct
    defaults derived from the flat index)"""
    vals = {}
    base = 0
    for v, i in spec.cells():
        name = '%s_%s_%d' % (prefix, v.name, i)
        if name in inputs:
            x = frac_of(inputs[name])
            vals[(v.name, i)] = float(x) if v.kind == 'real' else int(x)
        else:
            vals[(v.name, i)] = float(1000 * (1 + spec.vars.index(v)) + i)
    return vals


def build(F, spec, vals, symbolic):
    """create the file on either stack"""
    f = F()
    for name, n, unl in spec.dims:
        d = f.createDimension(name, n)
        if unl:
            d.setunlimited(True)
    for k, a in spec.attrs.items():
        setattr(f, k, a)
    for v in spec.vars:
        if symbolic:
            tc = 'O'
        else:
            tc = 'd' if v.kind == 'real' else 'l'
        shp = spec.shape(v)
        n = int(np.prod(shp, dtype=int))
        flat = np.empty(n, dtype=object if symbolic else
                        ('d' if v.kind == 'real' else 'l'))
        for i in range(n):
            flat[i] = vals[(v.name, i)]
        arr = flat.reshape(shp)
        m = None
        if v.masked is not None:
            m = np.zeros(n, dtype=bool)
            for i in v.masked:
                if i < n:
                    m[i] = True
            m = m.reshape(shp)
        if m is not None and not getattr(v, 'declared', True):
            var = f.createVariable(v.name, tc, v.dims,
                                   values=np.ma.MaskedArray(arr, mask=m))
            for k, a in v.attrs.items():
                setattr(var, k, a)
            continue
        kw = {}
        if v.masked is not None:
            kw['fill_value'] = v.fill
        var = f.createVariable(v.name, tc, v.dims, **kw)
        for k, a in v.attrs.items():
            setattr(var, k, a)
        if m is not None:
            var[...] = np.ma.MaskedArray(arr, mask=m)
        else:
            var[...] = arr
    return f


def source_arrays(spec, vals, symbolic):
    """plain (data, mask) arrays per variable, independent of the library"""
    out = {}
    for v in spec.vars:
        shp = spec.shape(v)
        n = int(np.prod(shp, dtype=int))
        flat = np.empty(n, dtype=object)
        for i in range(n):
            flat[i] = vals[(v.name, i)]
        m = np.zeros(n, dtype=bool)
        if v.masked is not None:
            for i in v.masked:
                if i < n:
                    m[i] = True
        out[v.name] = (flat.reshape(shp), m.reshape(shp))
    return out


def getmask(a):
    return np.ma.getmaskarray(a)


def getdata(a):
    return np.ma.getdata(a)


def eq_expr(a, b):
    """z3 equality of two scalars that may be symbolic or concrete"""
    if isinstance(a, symx.SymNaN) or isinstance(b, symx.SymNaN):
        return z3.BoolVal(isinstance(a, symx.SymNaN) and
                          isinstance(b, symx.SymNaN))
    if isinstance(a, symx.Sym) or isinstance(b, symx.Sym):
        r = (a == b) if isinstance(a, symx.Sym) else (b == a)
        if isinstance(r, symx.SymBool):
            return r.e
        return z3.BoolVal(bool(r))
    try:
        return z3.BoolVal(bool(a == b))
    except Exception:
        return z3.BoolVal(False)


def wf_problems(f, unlimited_expected=None):
    """structural well-formedness of a file (concrete structure): list of
    problems.  Used on both stacks."""
    probs = []
    for vk, v in f.variables.items():
        dims = getattr(v, 'dimensions', None)
        if not isinstance(dims, tuple):
            probs.append('%s: dimensions is %r' % (vk, type(dims).__name__))
            continue
        if len(dims) != np.ndim(v):
            probs.append('%s: %d dimension names for rank %d' % (
                vk, len(dims), np.ndim(v)))
            continue
        for i, d in enumerate(dims):
            if d not in f.dimensions:
                probs.append('%s: dimension %s not in file' % (vk, d))
            elif len(f.dimensions[d]) != v.shape[i]:
                probs.append('%s: axis %d (%s) has %d, dimension has %d' % (
                    vk, i, d, v.shape[i], len(f.dimensions[d])))
        for a in v.ncattrs():
            try:
                getattr(v, a)
            except Exception:
                probs.append('%s: attribute %s listed but not retrievable' % (
                    vk, a))
    for a in f.ncattrs():
        try:
            getattr(f, a)
        except Exception:
            probs.append('global attribute %s listed but not retrievable' % a)
    if unlimited_expected is not None:
        for d, unl in unlimited_expected.items():
            if d in f.dimensions and \
                    bool(f.dimensions[d].isunlimited()) != bool(unl):
                probs.append('dimension %s unlimited flag %r, expected %r' % (
                    d, f.dimensions[d].isunlimited(), unl))
    return probs


def twin_space(rec=None, extra_stubs=None, objfloat=False):
    stubs = {}
    if rec is not None:
        stubs['PseudoNetCDF.pncwarn'] = warn_stub(rec)
    stubs.update(extra_stubs or {})
    sp = loader.TwinSpace(stubs=stubs, objfloat=objfloat)
    return sp


class SpaceMixin(object):
    """lazily created twin space per obligation (kept across paths; the
    library modules used here hold no mutable module state)"""
    _space = None
    twin_modules = ('PseudoNetCDF.core._files',)
    objfloat = False    # np.zeros(..., float) allocates object arrays

    def space(self):
        if self._space is None:
            self._wr = WarnRec()
            self._space = twin_space(self._wr, objfloat=self.objfloat)
            for m in self.twin_modules:
                self._space.twin(m)
        return self._space

    def profiled(self, fn, *a, **k):
        """run fn with the function-coverage hook on (first paths only)"""
        import sys
        n = getattr(self, '_prof_left', 2)
        if n <= 0:
            return fn(*a, **k)
        self._prof_left = n - 1
        sys.setprofile(self._space.profile())
        try:
            return fn(*a, **k)
        finally:
            sys.setprofile(None)


def real_files():
    import warnings
    with warnings.catch_warnings():
        warnings.simplefilter('ignore')
        from PseudoNetCDF.core import _files as RF
    return RF


def compare_expected(out, spec, ref, newlens, claim, check_attrs=True,
                     varnames=None, tol=None):
    """compare a result file with the reference (name -> (dims, data, mask))
    through claim(label, z3 bool); returns observations for validation.
    tol: None = exact equality; else z3 real tolerance for data cells"""
    obs = {}
    for d, n in newlens.items():
        got = len(out.dimensions[d]) if d in out.dimensions else None
        obs['len_' + d] = got
        claim('dimlen:' + d, z3.BoolVal(got == n))
    unl = dict((d[0], d[2]) for d in spec.dims)
    bad = wf_problems(out, unl)
    claim('well-formed', z3.BoolVal(not bad))
    names = varnames if varnames is not None else [v.name for v in spec.vars]
    claim('variables-present', z3.BoolVal(
        list(out.variables.keys()) == list(names)))
    if check_attrs:
        for k, a in spec.attrs.items():
            claim('attrs:global', z3.BoolVal(getattr(out, k, None) == a))
    for v in spec.vars:
        if v.name not in out.variables or v.name not in ref:
            continue
        ov = out.variables[v.name]
        edims, ed, em = ref[v.name]
        obs['dims_' + v.name] = list(ov.dimensions)
        obs['shape_' + v.name] = list(ov.shape)
        claim('dims:' + v.name, z3.BoolVal(tuple(ov.dimensions) == edims))
        if check_attrs:
            okattr = all(getattr(ov, k, None) == a
                         for k, a in v.attrs.items())
            claim('attrs:' + v.name, z3.BoolVal(okattr))
        if tuple(ov.shape) != tuple(ed.shape):
            claim('shape:' + v.name, z3.BoolVal(False))
            continue
        gm = getmask(ov)
        obs['mask_' + v.name] = gm.astype(int).ravel().tolist()
        claim('mask:' + v.name, z3.BoolVal(bool((gm == em).all())))
        gd = getdata(ov)
        obs['data_' + v.name] = [None if m else x for x, m in
                                 zip(gd.ravel().tolist(),
                                     gm.ravel().tolist())]
        eqs = []
        for idx in np.ndindex(*ed.shape):
            if em[idx] or gm[idx]:
                continue
            if tol is None:
                eqs.append(eq_expr(gd[idx], ed[idx]))
            else:
                eqs.append(close_expr(gd[idx], ed[idx], tol))
        claim('data:' + v.name, z3.And(*eqs) if eqs else z3.BoolVal(True))
    return obs


def close_expr(a, b, tol):
    if isinstance(a, symx.Sym) or isinstance(b, symx.Sym):
        d = a - b
        return z3.And(d.e <= tol, d.e >= -tol)
    try:
        return z3.BoolVal(abs(float(a) - float(b)) <= tol *
                          max(1.0, abs(float(a)), abs(float(b))))
    except Exception:
        return z3.BoolVal(False)
