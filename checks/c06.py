"""C06 -- file arithmetic, eval and mask follow masked-array semantics.

Encoded: the operator dunders of PseudoNetCDFFile -> core/_functions.py:pncbo,
PseudoNetCDFFile.eval, PseudoNetCDFFile.mask (twins).  Operand cells are
symbolic reals (float variables) or symbolic integers (integer variables);
division by zero follows numpy (non-finite for floats, 0 for integer // and %).
"""
import fractions
import itertools

import numpy as np
import z3

from verifx import symx
from verifx.harness import Obligation
from verifx.symx import frac_of
from . import common
from .common import FileSpec, VarSpec

PROPERTY = 'C06'
LEVEL = 'model_checking'
ASSUMPTIONS = [
    'float variables are exact reals; x/0, x//0.0, x%0.0 are a non-finite '
    'sentinel (inf and nan are not distinguished); integer x//0 and x%0 are 0 '
    '(numpy); overflow to inf is outside the claim',
    'masked operands: a result cell is masked if either operand cell is '
    '(numpy.ma rule, DESIGN 5.0)',
    '** only with concrete integer exponents 0..3 in the right operand; '
    'bitwise & | ^ outside the claim',
    'numpy.ma.masked_values modelled as |x-v| <= 1e-8 + 1e-5*|v| over the '
    'reals; masked_equal exact',
    'mask patterns and where-arrays enumerated; thresholds symbolic',
]

MANIFEST = {
    'category': 'model_checking',
    'technique': 'symbolic execution of the real operator/pncbo/eval/mask '
                 'source on numpy object arrays of z3 reals and integers; SMT '
                 'validity of cell-wise result and mask conditions; replay on '
                 'the unpatched library',
    'text': 'Bounded symbolic checking: for two conforming files (shapes '
            '(2,), (1,2), (2,2); float, integer and masked variables, a '
            'coordinate variable), every arithmetic/comparison operator, '
            'several eval expressions and every subset (<=2 at a time quick) '
            'of mask() predicates with symbolic thresholds, z3 shows over ALL '
            'operand values that result cells equal the elementwise result, '
            'are masked exactly when an operand is masked or the result is '
            'non-finite / a predicate holds, and that coordinate variables '
            'pass through unchanged.'
            ' Also: a non-finite operand cell under + - * is masked in the result.',
    'note': 'Trusted: z3; numpy object-array arithmetic (calls the symbolic '
            'scalar operators); shim masked_invalid/masked_values. Floats '
            'are reals, so rounding/overflow are outside.',
}

OPS = ['+', '-', '*', '/', '//', '%', '**', '<', '>', '==', '<=', '>=', '!=']


def _fspec(shape, label):
    names = ['t', 'x'][:len(shape)] if len(shape) > 1 else ['x']
    dims = [(n, s, n == 't') for n, s in zip(names, shape)]
    cells = int(np.prod(shape))
    vs = [VarSpec('A', tuple(names), attrs={'units': 'ppb'}),
          VarSpec('I', tuple(names), kind='int', attrs={'units': '1'}),
          VarSpec('M', tuple(names), masked=(0,), attrs={'units': 'K'}),
          VarSpec(names[-1], (names[-1],), coord=True, attrs={'units': 'm'})]
    return FileSpec(dims, vs, attrs={'title': 'test'}, label=label)


def _apply_op(op, a, b):
    return {'+': lambda: a + b, '-': lambda: a - b, '*': lambda: a * b,
            '/': lambda: a / b, '//': lambda: a // b, '%': lambda: a % b,
            '**': lambda: a ** b, '<': lambda: a < b, '>': lambda: a > b,
            '==': lambda: a == b, '<=': lambda: a <= b, '>=': lambda: a >= b,
            '!=': lambda: a != b}[op]()


class BinOp(common.SpaceMixin, Obligation):
    mode = 'real+int'
    validate_paths = 6
    twin_modules = ('PseudoNetCDF.core._files', 'PseudoNetCDF.core._functions')

    def __init__(self, shape, op, mask2=None, label=None, nonfinite=False):
        # nonfinite: the last cell of A is +inf in the left operand and 1.5
        # in the right one (concrete): the result there is non-finite
        self.nonfinite = nonfinite
        self.spec = _fspec(shape, label or 'x'.join(map(str, shape)))
        self.spec2 = _fspec(shape, 'rhs')
        if mask2 is not None:
            for v in self.spec2.vars:
                if v.name == 'M':
                    v.masked = mask2
        self.op = op
        self.name = 'binop[%s|%s|m2=%s%s]' % (
            self.spec.label, op, mask2, '|inf-operand' if nonfinite else '')
        self.bounds = {'shape': shape, 'op': op,
                       'operand values': '[-1000, 1000] (reals / integers)'}

    def _coord(self):
        return self.spec.vars[-1].name

    def _mkvals(self, ctx):
        v1 = common.sym_values(ctx, self.spec, prefix='a', lo=-1000, hi=1000)
        if self.op == '**':
            v2 = {}
            for v, i in self.spec2.cells():
                v2[(v.name, i)] = [2, 0, 3, 1][i % 4]
        else:
            v2 = common.sym_values(ctx, self.spec2, prefix='b', lo=-1000,
                                    hi=1000)
        if self.op in ('/', '//', '%'):
            # numpy.ma's "safe divide" domain also masks divisors that are
            # denormally small relative to the numerator: keep divisors at 0
            # or away from it
            for x in v2.values():
                if isinstance(x, symx.SymReal):
                    ctx.assume(z3.Or(x.e == 0, x.e >= z3.Q(1, 10 ** 6),
                                     x.e <= -z3.Q(1, 10 ** 6)), check=False)
        self._inf_cells(v1, v2)
        return v1, v2

    def _inf_cells(self, v1, v2):
        if self.nonfinite:
            last = max(i for (n, i) in v1 if n == 'A')
            v1[('A', last)] = float('inf')
            v2[('A', last)] = 1.5

    def _expected_cell(self, a, b, ma, mb):
        """(z3 mask condition, value or None)"""
        if ma or mb:
            return z3.BoolVal(True), None
        op = self.op
        if isinstance(a, float) and a == float('inf'):
            # inf (+,-,*) 1.5 is non-finite: masked
            return z3.BoolVal(True), None
        if op in ('/', '//', '%'):
            isint = isinstance(a, (int, symx.SymInt)) and \
                isinstance(b, (int, symx.SymInt)) and not isinstance(a, bool)
            be = b.e if isinstance(b, symx.Sym) else None
            if op == '/' or not isint:
                zero = (b == 0)
                zc = zero.e if isinstance(zero, symx.SymBool) else \
                    z3.BoolVal(bool(zero))
                return zc, ('guard', zc, lambda: _apply_op(op, a, b))
            zero = (b == 0)
            zc = zero.e if isinstance(zero, symx.SymBool) else \
                z3.BoolVal(bool(zero))
            return z3.BoolVal(False), ('intdiv', zc,
                                       lambda: _apply_op(op, a, b))
        return z3.BoolVal(False), ('plain', None, lambda: _apply_op(op, a, b))

    def _check(self, out, s1, s2, claim, pc_eval, tol=None, h=None):
        spec = self.spec
        obs = {}
        unl = dict((d[0], d[2]) for d in spec.dims)
        claim('well-formed', z3.BoolVal(not common.wf_problems(out, unl)))
        claim('variables-present', z3.BoolVal(
            list(out.variables.keys()) == [v.name for v in spec.vars]))
        ck = self._coord()
        for v in spec.vars:
            if v.name not in out.variables:
                continue
            ov = out.variables[v.name]
            d1, m1 = s1[v.name]
            d2, m2 = s2[v.name]
            gd, gm = common.getdata(ov), common.getmask(ov)
            obs['mask_' + v.name] = gm.astype(int).ravel().tolist()
            obs['data_' + v.name] = [None if m else x for x, m in
                                     zip(gd.ravel().tolist(),
                                         gm.ravel().tolist())]
            claim('dims:' + v.name,
                  z3.BoolVal(tuple(ov.dimensions) == tuple(v.dims)))
            if tuple(ov.shape) != d1.shape:
                claim('shape:' + v.name, z3.BoolVal(False))
                continue
            if v.name == ck:
                eqs = [common.eq_expr(gd[i], d1[i]) if tol is None else
                       common.close_expr(gd[i], d1[i], tol)
                       for i in np.ndindex(*d1.shape)]
                claim('coord-passthrough:' + v.name, z3.And(*eqs))
                continue
            for idx in np.ndindex(*d1.shape):
                mc, val = self._expected_cell(d1[idx], d2[idx],
                                              bool(m1[idx]), bool(m2[idx]))
                lab = '%s[%s]' % (v.name, ','.join(map(str, idx)))
                claim('mask:' + lab, mc == z3.BoolVal(bool(gm[idx])))
                if gm[idx] or val is None:
                    continue
                kind, zc, fn = val
                if kind in ('guard', 'intdiv'):
                    iszero = pc_eval(zc)
                    if iszero is None:
                        continue  # decided by the mask claim
                    if iszero:
                        if kind == 'intdiv':
                            claim('data:' + lab, common.eq_expr(gd[idx], 0))
                        continue
                exp = fn()
                if tol is None:
                    claim('data:' + lab, common.eq_expr(gd[idx], exp))
                else:
                    claim('data:' + lab, common.close_expr(gd[idx], exp,
                                                           tol))
        if h is not None:
            for k, val in obs.items():
                h.observe(k, val)
        return obs

    def sym(self, ctx, h):
        ctx.numpy_division = True
        sp = self.space()
        F = sp.twin('PseudoNetCDF.core._files').PseudoNetCDFFile
        v1, v2 = self._mkvals(ctx)
        f1 = common.build(F, self.spec, v1, True)
        f2 = common.build(F, self.spec2, v2, True)
        f1.setCoords([self._coord()])
        f2.setCoords([self._coord()])
        try:
            out = self.profiled(_apply_op, self.op, f1, f2)
        except Exception as ex:
            h.candidate('in-domain-call-raised:' + type(ex).__name__,
                        repr(ex)[:200])
            return
        s1 = common.source_arrays(self.spec, v1, True)
        s2 = common.source_arrays(self.spec2, v2, True)

        def pc_eval(zc):
            # on this path the division already forked on b == 0
            if ctx.prove(zc)[0] == 'unsat':
                return True
            if ctx.prove(z3.Not(zc))[0] == 'unsat':
                return False
            return None
        self._check(out, s1, s2, h.claim, pc_eval, None, h)

    def real(self, inputs):
        import warnings
        RF = common.real_files()
        v1 = common.concrete_values(self.spec, inputs, prefix='a')
        if self.op == '**':
            v2 = {}
            for v, i in self.spec2.cells():
                v2[(v.name, i)] = [2, 0, 3, 1][i % 4]
        else:
            v2 = common.concrete_values(self.spec2, inputs, prefix='b')
        self._inf_cells(v1, v2)
        f1 = common.build(RF.PseudoNetCDFFile, self.spec, v1, False)
        f2 = common.build(RF.PseudoNetCDFFile, self.spec2, v2, False)
        f1.setCoords([self._coord()])
        f2.setCoords([self._coord()])
        viol = {}

        def claim(label, e):
            if not z3.is_true(z3.simplify(e)):
                viol[label] = 'differs (%s)' % label
        try:
            with warnings.catch_warnings():
                warnings.simplefilter('ignore')
                with np.errstate(all='ignore'):
                    out = _apply_op(self.op, f1, f2)
        except Exception as ex:
            viol['in-domain-call-raised:' + type(ex).__name__] = \
                repr(ex)[:200]
            return {'obs': {}, 'violations': viol}

        def tofrac(vals, spec):
            o = {}
            for (n, i), x in vals.items():
                kind = [v.kind for v in spec.vars if v.name == n][0]
                o[(n, i)] = int(x) if kind == 'int' else (
                    x if x == float('inf') else fractions.Fraction(x))
            return o
        s1 = common.source_arrays(self.spec, tofrac(v1, self.spec), False)
        s2 = common.source_arrays(self.spec2, tofrac(v2, self.spec2), False)

        def pc_eval(zc):
            return z3.is_true(z3.simplify(zc))
        with np.errstate(all='ignore'):
            obs = self._check(out, s1, s2, claim, pc_eval, 1e-9)
        return {'obs': obs, 'violations': viol}


EXPRS = {
    'sum': ('C = A + M', lambda s: {'C': ('A', lambda a, m, i: a + m,
                                          ('A', 'M'))}),
    'scale': ('C = A * 2 - I', lambda s: {'C': ('A', lambda a, i_: a * 2 - i_,
                                                ('A', 'I'))}),
    'two': ('C = A * A; D = C + I', None),
    'div': ('C = A / 4', None),
}


class Eval(common.SpaceMixin, Obligation):
    mode = 'real+int'
    validate_paths = 4

    def __init__(self, shape, key, copyall=False):
        self.spec = _fspec(shape, 'x'.join(map(str, shape)))
        self.key, self.copyall = key, copyall
        self.expr = EXPRS[key][0]
        self.name = 'eval[%s|%s|copyall=%s]' % (self.spec.label, key, copyall)
        self.bounds = {'shape': shape, 'expr': self.expr}

    def _expected(self, src):
        A, mA = src['A']
        I_, mI = src['I']
        M, mM = src['M']
        exp = {}
        n = A.shape
        mk = lambda f, ms: (np.array([f(i) for i in np.ndindex(*n)],  # noqa
                                     dtype=object).reshape(n), ms)
        if self.key == 'sum':
            exp['C'] = mk(lambda i: A[i] + M[i], mA | mM)
        elif self.key == 'scale':
            exp['C'] = mk(lambda i: A[i] * 2 - I_[i], mA | mI)
        elif self.key == 'two':
            exp['C'] = mk(lambda i: A[i] * A[i], mA)
            exp['D'] = mk(lambda i: A[i] * A[i] + I_[i], mA | mI)
        elif self.key == 'div':
            exp['C'] = mk(lambda i: A[i] / 4, mA)
        return exp

    def _check(self, out, src, claim, tol=None, h=None):
        spec = self.spec
        obs = {}
        unl = dict((d[0], d[2]) for d in spec.dims)
        claim('well-formed', z3.BoolVal(not common.wf_problems(out, unl)))
        exp = self._expected(src)
        dimsA = [v.dims for v in spec.vars if v.name == 'A'][0]
        for k, (ed, em) in exp.items():
            if k not in out.variables:
                claim('created:' + k, z3.BoolVal(False))
                continue
            ov = out.variables[k]
            claim('dims:' + k, z3.BoolVal(tuple(ov.dimensions) == dimsA))
            if tuple(ov.shape) != ed.shape:
                claim('shape:' + k, z3.BoolVal(False))
                continue
            gd, gm = common.getdata(ov), common.getmask(ov)
            obs['mask_' + k] = gm.astype(int).ravel().tolist()
            obs['data_' + k] = [None if m else x for x, m in
                                zip(gd.ravel().tolist(), gm.ravel().tolist())]
            claim('mask:' + k, z3.BoolVal(bool((gm == em).all())))
            eqs = []
            for idx in np.ndindex(*ed.shape):
                if em[idx] or gm[idx]:
                    continue
                eqs.append(common.eq_expr(gd[idx], ed[idx]) if tol is None
                           else common.close_expr(gd[idx], ed[idx], tol))
            claim('data:' + k, z3.And(*eqs) if eqs else z3.BoolVal(True))
        if self.copyall:
            for v in spec.vars:
                if v.name in exp:
                    continue
                present = v.name in out.variables
                claim('copied:' + v.name, z3.BoolVal(present))
                if present:
                    ov = out.variables[v.name]
                    d, m = src[v.name]
                    gd, gm = common.getdata(ov), common.getmask(ov)
                    ok = tuple(ov.shape) == d.shape and bool((gm == m).all())
                    eqs = [z3.BoolVal(ok)]
                    if ok:
                        for idx in np.ndindex(*d.shape):
                            if not m[idx]:
                                eqs.append(
                                    common.eq_expr(gd[idx], d[idx])
                                    if tol is None else
                                    common.close_expr(gd[idx], d[idx], tol))
                    claim('copied-data:' + v.name, z3.And(*eqs))
        if h is not None:
            for k, val in obs.items():
                h.observe(k, val)
        return obs

    def sym(self, ctx, h):
        ctx.numpy_division = True
        sp = self.space()
        F = sp.twin('PseudoNetCDF.core._files').PseudoNetCDFFile
        vals = common.sym_values(ctx, self.spec)
        f = common.build(F, self.spec, vals, True)
        try:
            out = self.profiled(f.eval, self.expr, copyall=self.copyall)
        except Exception as ex:
            h.candidate('in-domain-call-raised:' + type(ex).__name__,
                        repr(ex)[:200])
            return
        src = common.source_arrays(self.spec, vals, True)
        self._check(out, src, h.claim, None, h)

    def real(self, inputs):
        import warnings
        RF = common.real_files()
        vals = common.concrete_values(self.spec, inputs)
        f = common.build(RF.PseudoNetCDFFile, self.spec, vals, False)
        viol = {}

        def claim(label, e):
            if not z3.is_true(z3.simplify(e)):
                viol[label] = 'differs (%s)' % label
        try:
            with warnings.catch_warnings():
                warnings.simplefilter('ignore')
                out = f.eval(self.expr, copyall=self.copyall)
        except Exception as ex:
            viol['in-domain-call-raised:' + type(ex).__name__] = \
                repr(ex)[:200]
            return {'obs': {}, 'violations': viol}
        fv = {}
        for (n, i), x in vals.items():
            kind = [v.kind for v in self.spec.vars if v.name == n][0]
            fv[(n, i)] = int(x) if kind == 'int' else fractions.Fraction(x)
        src = common.source_arrays(self.spec, fv, False)
        obs = self._check(out, src, claim, 1e-9)
        return {'obs': obs, 'violations': viol}


PREDS = ['less', 'less_equal', 'greater', 'greater_equal', 'values', 'equal',
         'where', 'invalid']


class Mask(common.SpaceMixin, Obligation):
    mode = 'real+int'
    validate_paths = 6

    def __init__(self, shape, preds, coords=False, dims=None):
        self.spec = _fspec(shape, 'x'.join(map(str, shape)))
        if 'values' in preds:
            # numpy.ma.masked_values on integer data with a non-integer
            # value refills previously masked cells with int(value) and
            # forgets their mask: a numpy quirk outside this property
            self.spec.vars = [v for v in self.spec.vars if v.name != 'I']
        if len(preds) > 1:
            # every predicate comparison forks per live cell: keep the
            # cell count small for predicate combinations
            self.spec.vars = [v for v in self.spec.vars if v.name != 'M']
        self.preds = list(preds)
        self.coords = coords
        self.name = 'mask[%s|%s|coords=%s]' % (self.spec.label,
                                               '+'.join(preds), coords)
        self.bounds = {'shape': shape, 'predicates': preds}
        self.where = np.zeros(shape, dtype=bool)
        self.where.reshape(-1)[-1] = True

    def _kw(self, thr):
        kw = {}
        for p in self.preds:
            if p == 'where':
                kw['where'] = self.where
            elif p == 'invalid':
                kw['invalid'] = True
            else:
                kw[p] = thr[p]
        if self.coords:
            kw['coords'] = True
        return kw

    def _pred_cell(self, x, thr, idx):
        """z3 condition under which cell value x is to be masked"""
        cs = []
        for p in self.preds:
            if p == 'where':
                cs.append(z3.BoolVal(bool(self.where[idx])))
                continue
            if p == 'invalid':
                continue
            t = thr[p]
            if p == 'less':
                c = x < t
            elif p == 'less_equal':
                c = x <= t
            elif p == 'greater':
                c = x > t
            elif p == 'greater_equal':
                c = x >= t
            elif p == 'equal':
                c = x == t
            elif p == 'values':
                if isinstance(x, (int, symx.SymInt)) and \
                        isinstance(t, (int, symx.SymInt)):
                    c = x == t
                else:
                    c = abs(x - t) <= (fractions.Fraction(1, 10 ** 8) +
                                       fractions.Fraction(1, 10 ** 5) * abs(t))
            cs.append(c.e if isinstance(c, symx.SymBool)
                      else z3.BoolVal(bool(c)))
        return z3.Or(*cs) if cs else z3.BoolVal(False)

    def _check(self, out, src, thr, claim, tol=None, h=None):
        spec = self.spec
        obs = {}
        unl = dict((d[0], d[2]) for d in spec.dims)
        claim('well-formed', z3.BoolVal(not common.wf_problems(out, unl)))
        claim('variables-present', z3.BoolVal(
            list(out.variables.keys()) == [v.name for v in spec.vars]))
        for v in spec.vars:
            if v.name not in out.variables:
                continue
            ov = out.variables[v.name]
            d, m = src[v.name]
            if tuple(ov.shape) != d.shape:
                claim('shape:' + v.name, z3.BoolVal(False))
                continue
            gd, gm = common.getdata(ov), common.getmask(ov)
            obs['mask_' + v.name] = gm.astype(int).ravel().tolist()
            obs['data_' + v.name] = [None if mm else x for x, mm in
                                     zip(gd.ravel().tolist(),
                                         gm.ravel().tolist())]
            for idx in np.ndindex(*d.shape):
                lab = '%s[%s]' % (v.name, ','.join(map(str, idx)))
                if v.coord and not self.coords:
                    cond = z3.BoolVal(bool(m[idx]))
                elif m[idx]:
                    cond = z3.BoolVal(True)
                else:
                    cond = self._pred_cell(d[idx], thr, idx)
                claim('mask:' + lab, cond == z3.BoolVal(bool(gm[idx])))
                if not gm[idx] and not m[idx]:
                    claim('data:' + lab, common.eq_expr(gd[idx], d[idx])
                          if tol is None else
                          common.close_expr(gd[idx], d[idx], tol))
        if h is not None:
            for k, val in obs.items():
                h.observe(k, val)
        return obs

    def sym(self, ctx, h):
        sp = self.space()
        F = sp.twin('PseudoNetCDF.core._files').PseudoNetCDFFile
        vals = common.sym_values(ctx, self.spec)
        thr = dict((p, ctx.real('thr_' + p)) for p in self.preds
                   if p not in ('where', 'invalid'))
        f = common.build(F, self.spec, vals, True)
        f.setCoords([self.spec.vars[-1].name])
        try:
            out = self.profiled(f.mask, **self._kw(thr))
        except Exception as ex:
            h.candidate('in-domain-call-raised:' + type(ex).__name__,
                        repr(ex)[:200])
            return
        src = common.source_arrays(self.spec, vals, True)
        self._check(out, src, thr, h.claim, None, h)

    def real(self, inputs):
        import warnings
        RF = common.real_files()
        vals = common.concrete_values(self.spec, inputs)
        thr = dict((p, float(frac_of(inputs.get('thr_' + p, 0))))
                   for p in self.preds if p not in ('where', 'invalid'))
        f = common.build(RF.PseudoNetCDFFile, self.spec, vals, False)
        f.setCoords([self.spec.vars[-1].name])
        viol = {}

        def claim(label, e):
            if not z3.is_true(z3.simplify(e)):
                viol[label] = 'differs (%s)' % label
        try:
            with warnings.catch_warnings():
                warnings.simplefilter('ignore')
                out = f.mask(**self._kw(thr))
        except Exception as ex:
            viol['in-domain-call-raised:' + type(ex).__name__] = \
                repr(ex)[:200]
            return {'obs': {}, 'violations': viol}
        fv = {}
        for (n, i), x in vals.items():
            kind = [v.kind for v in self.spec.vars if v.name == n][0]
            fv[(n, i)] = int(x) if kind == 'int' else fractions.Fraction(x)
        src = common.source_arrays(self.spec, fv, False)
        fthr = dict((p, fractions.Fraction(t)) for p, t in thr.items())
        obs = self._check(out, src, fthr, claim, 1e-12)
        return {'obs': obs, 'violations': viol, 'thr': thr}


def obligations(tier):
    obs = []
    shapes = [(2,), (1, 2)] if tier == 'quick' else [(2,), (1, 2), (2, 2), (3,)]
    for shape in shapes:
        for op in OPS:
            obs.append(BinOp(shape, op, (0,)))
            if shape == shapes[0] or tier == 'thorough':
                obs.append(BinOp(shape, op, (1,)))
                obs.append(BinOp(shape, op, ()))
        if shape == shapes[0] or tier == 'thorough':
            # a non-finite operand cell: the result there must be masked
            for op in ('+', '-', '*'):
                obs.append(BinOp(shape, op, (), nonfinite=True))
        for key in EXPRS:
            for ca in (False, True):
                obs.append(Eval(shape, key, ca))
        for p in PREDS:
            obs.append(Mask(shape, [p]))
        pairs = list(itertools.combinations(PREDS, 2))
        if tier == 'quick':
            pairs = [('less', 'greater'), ('less_equal', 'where'),
                     ('greater_equal', 'equal'), ('values', 'less'),
                     ('equal', 'values'), ('invalid', 'greater')]
        for ps in pairs:
            obs.append(Mask(shape if len(shape) == 1 else (1, 1), list(ps)))
        if shape == shapes[0]:
            obs.append(Mask((1,), ['less', 'greater_equal', 'where',
                                   'equal']))
            obs.append(Mask((1,), ['less_equal', 'greater', 'values',
                                   'invalid']))
        obs.append(Mask(shape, ['greater'], coords=True))
        if tier == 'thorough' and shape == shapes[0]:
            obs.append(Mask((1,), PREDS))
    return obs
