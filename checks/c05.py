"""C05 -- isolation: inputs are never modified, results never alias.

Every operation of the catalogue (checks/ops.py) and the queries val2idx /
getTimes are executed on the twin with symbolic data; afterwards the solver is
asked whether any input cell can differ from its pre-state, the result buffers
are tested for sharing memory with the inputs (numpy's own view semantics, the
arrays are real numpy arrays) and a write into every result variable is
followed by the same question."""
import numpy as np
import z3

from verifx import symx
from verifx.harness import Obligation
from verifx.symx import frac_of
from . import common, ops
from .c01 import PrefixCtx, _sub
from .common import FileSpec, VarSpec

PROPERTY = 'C05'
LEVEL = 'model_checking'
ASSUMPTIONS = [
    'aliasing is computed, not assumed: the twin runs on real numpy arrays '
    '(object dtype), so views/copies are numpy\'s own',
    'data cells symbolic (reals/integers), dimension lengths concrete, '
    'operation arguments symbolic and in-domain',
    'NOT covered (not encodable, see MANIFEST note): closing / dropping / '
    'garbage-collecting disk-backed netCDF files in any interleaving (netCDF-C '
    'handle ids, cyclic GC schedule), dump/repr/save (C library / formatting)',
]

MANIFEST = {
    'category': 'model_checking',
    'technique': 'symbolic execution of the real operations/queries on numpy '
                 'object arrays; SMT validity of "every input cell equals its '
                 'pre-state" before and after writes into the results; '
                 'numpy shares_memory on the real buffers; replay on the '
                 'unpatched library',
    'text': 'Bounded symbolic checking of the isolation clauses that are '
            'Python-level: for every catalogue operation and for val2idx/'
            'getTimes, over all data values and in-domain arguments, receiver '
            'and argument files keep dimensions, attributes, data and masks; '
            'no result variable shares memory with an input; writing into '
            'every result variable leaves the inputs unchanged. The close/GC '
            'clause over disk-backed files is NOT claimed (netCDF-C handle '
            'recycling and GC schedules cannot be encoded).'
            ' Also: IOAPI windows leave the source\'s origin/levels/dimensions unchanged (array-valued attributes included); getTimes leaves TFLAG and CF time coordinates unchanged; mask(where=) on a variable that already has masked cells; boolean-mask selections.',
    'note': 'Trusted: z3, numpy memory model (real numpy). Clause on '
            'close()/__del__ interleavings of disk-backed files is outside '
            'this technique (FFI + GC nondeterminism) and is not claimed.',
}


def snapshot(f):
    snap = {'dims': [(k, len(v), bool(v.isunlimited()))
                     for k, v in f.dimensions.items()],
            'attrs': dict((k, getattr(f, k)) for k in f.ncattrs()),
            'vars': {}}
    for k, v in f.variables.items():
        snap['vars'][k] = {
            'dims': tuple(v.dimensions), 'shape': tuple(v.shape),
            'data': np.array(common.getdata(v), dtype=object, copy=True),
            'mask': common.getmask(v).copy(),
            'attrs': dict((a, getattr(v, a)) for a in v.ncattrs())}
    return snap


def unchanged(f, snap, claim, tag, tol=None):
    dims = [(k, len(v), bool(v.isunlimited()))
            for k, v in f.dimensions.items()]
    claim(tag + ':dimensions', z3.BoolVal(dims == snap['dims']))
    attrs = dict((k, getattr(f, k)) for k in f.ncattrs())
    claim(tag + ':attributes', z3.BoolVal(_eqd(attrs, snap['attrs'])))
    claim(tag + ':variable-set',
          z3.BoolVal(list(f.variables.keys()) == list(snap['vars'].keys())))
    for k, s in snap['vars'].items():
        if k not in f.variables:
            continue
        v = f.variables[k]
        ok = tuple(v.dimensions) == s['dims'] and tuple(v.shape) == s['shape']
        va = dict((a, getattr(v, a)) for a in v.ncattrs())
        claim('%s:meta:%s' % (tag, k), z3.BoolVal(ok and _eqd(va, s['attrs'])))
        if not ok:
            continue
        m = common.getmask(v)
        claim('%s:mask:%s' % (tag, k), z3.BoolVal(bool((m == s['mask']).all())))
        d = common.getdata(v)
        eqs = []
        for idx in np.ndindex(*s['shape']):
            if s['mask'][idx]:
                continue
            eqs.append(common.eq_expr(d[idx], s['data'][idx]) if tol is None
                       else common.close_expr(d[idx], s['data'][idx], tol))
        claim('%s:data:%s' % (tag, k),
              z3.And(*eqs) if eqs else z3.BoolVal(True))


def _eqd(a, b):
    if set(a) != set(b):
        return False
    for k in a:
        x, y = a[k], b[k]
        try:
            if isinstance(x, np.ndarray) or isinstance(y, np.ndarray):
                if not np.array_equal(np.asarray(x), np.asarray(y)):
                    return False
            elif x != y:
                return False
        except Exception:
            return False
    return True


def aliasing(out, inputs, claim):
    for rk, rv in out.variables.items():
        rd = common.getdata(rv)
        rm = np.ma.getmask(rv)
        for tag, f in inputs:
            for ik, iv in f.variables.items():
                idt = common.getdata(iv)
                sh = rd.size > 0 and idt.size > 0 and \
                    bool(np.shares_memory(rd, idt))
                claim('alias:%s<-%s.%s' % (rk, tag, ik), z3.BoolVal(not sh))
                im = np.ma.getmask(iv)
                if isinstance(rm, np.ndarray) and isinstance(im, np.ndarray) \
                        and rm.size and im.size:
                    claim('alias-mask:%s<-%s.%s' % (rk, tag, ik),
                          z3.BoolVal(not np.shares_memory(rm, im)))
            for ik in f.variables:
                if f.variables[ik] is rv:
                    claim('same-object:%s<-%s.%s' % (rk, tag, ik),
                          z3.BoolVal(False))


def scribble(out):
    for rk, rv in list(out.variables.items()):
        try:
            if rv.ndim == 0:
                rv[...] = 777
            else:
                rv[...] = 777
            if isinstance(rv, np.ma.MaskedArray) and rv.size:
                rv[(0,) * rv.ndim] = np.ma.masked
            rv.units = 'scribbled'
        except Exception:
            pass
    try:
        out.title = 'scribbled'
        for d in out.dimensions.values():
            d.setunlimited(not d.isunlimited())
    except Exception:
        pass


class Iso(common.SpaceMixin, Obligation):
    mode = 'real'
    validate_paths = 4
    max_paths = 4000
    twin_modules = ('PseudoNetCDF.core._files', 'PseudoNetCDF.core._functions')

    def __init__(self, specname, op):
        self.specname, self.op = specname, op
        self.spec = ops.SPECS[specname]()
        self.name = 'iso[%s|%s]' % (specname, op.name)
        self.bounds = {'structure': specname, 'op': op.name}

    def _go(self, F, fn, symbolic, vals1, vals2, a, claim, tol=None):
        env = ops.Env(F, fn, symbolic)
        f = common.build(F, self.spec, vals1, symbolic)
        f2 = common.build(F, self.spec, vals2, symbolic) \
            if vals2 is not None else None
        s1 = snapshot(f)
        s2 = snapshot(f2) if f2 is not None else None
        try:
            out = self.op.run(f, f2, a, env)
        except Exception:
            out = None  # completion is C01's subject
        unchanged(f, s1, claim, 'after-call:self', tol)
        if f2 is not None:
            unchanged(f2, s2, claim, 'after-call:other', tol)
        if out is None or not hasattr(out, 'variables'):
            return
        claim('result-is-new-object', z3.BoolVal(out is not f and
                                                 out is not f2))
        ins = [('self', f)] + ([('other', f2)] if f2 is not None else [])
        aliasing(out, ins, claim)
        scribble(out)
        unchanged(f, s1, claim, 'after-write:self', tol)
        if f2 is not None:
            unchanged(f2, s2, claim, 'after-write:other', tol)

    def sym(self, ctx, h):
        sp = self.space()
        F = sp.twin('PseudoNetCDF.core._files').PseudoNetCDFFile
        fn = sp.twin('PseudoNetCDF.core._functions')
        vals1 = self.op.prepare(self.spec, common.sym_values(
            ctx, self.spec, 'd'), True)
        vals2 = common.sym_values(ctx, self.spec, 'e') \
            if self.op.needs_second else None
        a = self.op.args(PrefixCtx(ctx, 'o1_'), self.spec)
        self.profiled(self._go, F, fn, True, vals1, vals2, a, h.claim)

    def real(self, inputs):
        import warnings
        RF = common.real_files()
        from PseudoNetCDF.core import _functions as RFN
        vals1 = self.op.prepare(self.spec, common.concrete_values(
            self.spec, inputs, 'd'), False)
        vals2 = common.concrete_values(self.spec, inputs, 'e') \
            if self.op.needs_second else None
        a = self.op.conc(_sub(inputs, 'o1_'), self.spec)
        viol = {}

        def claim(label, e):
            if not z3.is_true(z3.simplify(e)):
                viol[label] = 'isolation broken (%s)' % label
        with warnings.catch_warnings():
            warnings.simplefilter('ignore')
            with np.errstate(all='ignore'):
                self._go(RF.PseudoNetCDFFile, RFN, False, vals1, vals2, a,
                         claim, 0.0)
        return {'obs': {}, 'violations': viol}


class QueryVal2idx(common.SpaceMixin, Obligation):
    mode = 'real'
    validate_paths = 4

    def __init__(self, method, direction, bvar):
        self.method, self.dir, self.bvar = method, direction, bvar
        self.name = 'query-val2idx[%s,%s,bvar=%s]' % (method, direction, bvar)
        self.bounds = {'n': 3}

    def _build(self, F, cs, es, symbolic):
        tc = 'O' if symbolic else 'd'
        f = F()
        f.createDimension('x', 3)
        v = f.createVariable('x', tc, ('x',))
        v.units = 'm'
        for i in range(3):
            v[i] = cs[i]
        if self.bvar:
            f.createDimension('nv', 2)
            b = f.createVariable('x_bnds', tc, ('x', 'nv'))
            for i in range(3):
                b[i, 0] = es[i]
                b[i, 1] = es[i + 1]
        a = f.createVariable('A', tc, ('x',))
        for i in range(3):
            a[i] = cs[i]
        return f

    def _go(self, f, q, claim, tol=None):
        s = snapshot(f)
        try:
            f.val2idx('x', [q], method=self.method, bounds='ignore')
        except Exception:
            pass
        unchanged(f, s, claim, 'after-query', tol)

    def sym(self, ctx, h):
        sp = self.space()
        F = sp.twin('PseudoNetCDF.core._files').PseudoNetCDFFile
        sgn = 1 if self.dir == 'asc' else -1
        cs = [ctx.real('c%d' % i) for i in range(3)]
        for a, b in zip(cs[:-1], cs[1:]):
            ctx.assume(sgn * (b.e - a.e) > 0)
        es = None
        if self.bvar:
            es = [ctx.real('e%d' % i) for i in range(4)]
            for i in range(3):
                ctx.assume(sgn * (cs[i].e - es[i].e) > 0)
                ctx.assume(sgn * (es[i + 1].e - cs[i].e) > 0)
        q = ctx.real('q')
        f = self._build(F, cs, es, True)
        try:
            self.profiled(self._go, f, q, h.claim)
        except symx.Candidate:
            pass

    def real(self, inputs):
        import warnings
        RF = common.real_files()
        cs = [float(frac_of(inputs['c%d' % i])) for i in range(3)]
        es = [float(frac_of(inputs['e%d' % i])) for i in range(4)] \
            if self.bvar else None
        q = float(frac_of(inputs['q']))
        f = self._build(RF.PseudoNetCDFFile, cs, es, False)
        viol = {}

        def claim(label, e):
            if not z3.is_true(z3.simplify(e)):
                viol[label] = 'query modified the file (%s)' % label
        with warnings.catch_warnings():
            warnings.simplefilter('ignore')
            self._go(f, q, claim, 0.0)
        return {'obs': {}, 'violations': viol}


class QueryGetTimes(common.SpaceMixin, Obligation):
    """getTimes on an IOAPI-style TFLAG variable: dates are symbolic within
    a small set that includes the -635 sentinel the function rewrites"""
    mode = 'int'
    validate_paths = 6

    def __init__(self, bounds=False):
        self.b = bounds
        self.name = 'query-getTimes[TFLAG,bounds=%s]' % bounds
        self.bounds = {'T': 2, 'dates': '{-635, 2020001..2020003}'}

    def _build(self, F, dates, symbolic):
        f = F()
        f.createDimension('TSTEP', 2)
        f.createDimension('VAR', 1)
        f.createDimension('DATE-TIME', 2)
        v = f.createVariable('TFLAG', 'O' if symbolic else 'i',
                             ('TSTEP', 'VAR', 'DATE-TIME'))
        for t in range(2):
            v[t, 0, 0] = dates[t]
            v[t, 0, 1] = 10000 * t
        f.TSTEP = 10000
        return f

    def _go(self, f, claim):
        s = snapshot(f)
        try:
            f.getTimes(bounds=self.b)
        except Exception:
            pass
        unchanged(f, s, claim, 'after-query')

    def sym(self, ctx, h):
        sp = self.space()
        F = sp.twin('PseudoNetCDF.core._files').PseudoNetCDFFile
        ds = []
        for t in range(2):
            d = ctx.int('date%d' % t)
            ctx.assume(z3.Or(d.e == -635, z3.And(d.e >= 2020001,
                                                 d.e <= 2020003)))
            ds.append(d)
        f = self._build(F, ds, True)
        self.profiled(self._go, f, h.claim)

    def real(self, inputs):
        import warnings
        RF = common.real_files()
        ds = [int(frac_of(inputs.get('date%d' % t, 2020001)))
              for t in range(2)]
        f = self._build(RF.PseudoNetCDFFile, ds, False)
        viol = {}

        def claim(label, e):
            if not z3.is_true(z3.simplify(e)):
                viol[label] = 'getTimes modified the file (%s)' % label
        with warnings.catch_warnings():
            warnings.simplefilter('ignore')
            self._go(f, claim)
        return {'obs': {}, 'violations': viol, 'dates': ds}


class QueryGetTimesCF(QueryGetTimes):
    """getTimes on a CF time coordinate (relative time, standard and
    fixed-length calendars, int / float32 / float64 storage): the query
    leaves the coordinate and everything else as it was"""

    def __init__(self, calendar, dt):
        self.cal, self.dt = calendar, dt
        self.b = False
        self.name = 'query-getTimes[CF,%s,%s]' % (calendar, dt)
        self.bounds = {'T': 2, 'values': 'symbolic whole days in [0, 800]'}

    def space(self):
        if self._space is None:
            from verifx import loader, symdatetime as sd
            self._wr = common.WarnRec()
            self._space = loader.TwinSpace(stubs={
                'PseudoNetCDF.pncwarn': common.warn_stub(self._wr),
                'datetime': sd.make_module()}, objfloat=self.objfloat)
            self._space.twin('PseudoNetCDF.core._files')
        return self._space

    def _build(self, F, vals, symbolic):
        f = F()
        f.createDimension('time', 2)
        v = f.createVariable('time', 'O' if symbolic else self.dt, ('time',))
        for t in range(2):
            v[t] = vals[t]
        v.units = 'days since 2000-01-01 00:00:00'
        v.calendar = self.cal
        if symbolic:
            # the machine type the symbolic cells stand for
            v._as_dtype = np.dtype(self.dt)
        w = f.createVariable('A', 'O' if symbolic else 'd', ('time',))
        w[:] = [1, 2]
        return f

    def sym(self, ctx, h):
        sp = self.space()
        F = sp.twin('PseudoNetCDF.core._files').PseudoNetCDFFile
        vs = [ctx.int('n%d' % t, 0, 800) for t in range(2)]
        if self.dt != 'i':
            vs = [v * 1.0 for v in vs]
        f = self._build(F, vs, True)
        self.profiled(self._go, f, h.claim)

    def real(self, inputs):
        import warnings
        RF = common.real_files()
        vs = [int(frac_of(inputs.get('n%d' % t, t))) for t in range(2)]
        f = self._build(RF.PseudoNetCDFFile, vs, False)
        viol = {}

        def claim(label, e):
            if not z3.is_true(z3.simplify(e)):
                viol[label] = 'getTimes modified the file (%s)' % label
        with warnings.catch_warnings():
            warnings.simplefilter('ignore')
            self._go(f, claim)
        return {'obs': {}, 'violations': viol, 'values': vs}


def obligations(tier):
    obs = []
    cat = ops.catalogue(tier)
    for sn in ('s1', 's2', 's3'):
        spec = ops.SPECS[sn]()
        for o in cat:
            if not o.applicable(spec):
                continue
            if tier == 'quick' and sn == 's3' and \
                    o.name != 'mask(greater)':
                continue
            if o.name == 'mask(greater)' and sn != 's3':
                continue  # one fork per live cell: smallest structure only
            if o.name == 'slice_points' and tier == 'quick' and sn == 's1':
                continue
            if o.name == 'stack(z)':
                continue  # array_equal on 4 symbolic non-stack variables:
                # path product too large; stack(t)/stack(x) cover the code
            if o.name == 'fn.mask_vals':
                continue  # documented in-place helper: returns its argument
            obs.append(Iso(sn, o))
    for m in ('nearest', 'bounds', 'exact'):
        for d in ('asc', 'desc'):
            for b in (False, True):
                obs.append(QueryVal2idx(m, d, b))
    obs.append(QueryGetTimes(False))
    obs.append(QueryGetTimes(True))
    for cal in ('standard', 'noleap', 'all_leap'):
        for dt in (('d', 'i') if tier == 'quick' else ('d', 'f', 'i')):
            obs.append(QueryGetTimesCF(cal, dt))
    # IOAPI windows must leave the source file's referencing attributes
    # alone, also when they are held as arrays (checks/c11.py obligations
    # with the source-unchanged claims switched on)
    from . import c11
    for dim in ('COL', 'ROW', 'LAY'):
        for kind in ('int', 'slice'):
            for attr in ('scalar', 'array'):
                if dim == 'LAY' and attr == 'array':
                    continue
                o = c11.Subset(dim, kind, L=3 if dim == 'LAY' else 2,
                               R=3 if dim == 'ROW' else 2,
                               C=3 if dim == 'COL' else 2, year=2004,
                               attr=attr)
                o.check_source = True
                o.name = 'ioapi-' + o.name
                obs.append(o)
    return obs
