"""C16 -- value-to-index lookup returns the containing or nearest cell.

Encoded: the whole of PseudoNetCDFFile.val2idx (twin of core/_files.py run on
object arrays of z3 reals).  Symbolic: coordinate centres (strictly monotonic,
non-uniform allowed), cell edges (consistent with the centres), the query
value.  Enumerated (structural): n, direction, bounds representation, method,
bounds/clean/left-right options.
"""
import fractions
import itertools
import warnings

import z3

from verifx import symx, loader
from verifx.harness import Obligation
from verifx.symx import frac_of
from . import common

PROPERTY = 'C16'
LEVEL = 'model_checking'
ASSUMPTIONS = [
    'floats treated as exact reals (float mode "real"): the property is an '
    'order/containment statement; float rounding of the interpolation is '
    'outside the claim',
    'np.interp is modelled by its documented piecewise-linear definition for '
    'increasing xp; a call with non-increasing xp stops the path and is '
    'decided by replay on the real numpy',
    'np.round half-even, ndarray.astype("i") truncation toward zero, NaN -> '
    'INT_MIN; numpy.ma.masked_invalid masks NaN only (reals are finite)',
    'warnings are observed through the library warn() hook',
    'datetime front ends (date2num/time2idx): netCDF4.date2num (C extension) '
    'is replaced by its reference meaning (t - reference)/unit on the '
    'symbolic datetime model, aware values converted to UTC; standard '
    'calendar, reference 2000-01-01, units days/hours/minutes/seconds, whole '
    'seconds in 1999..2001, UTC offsets of whole minutes; the coordinate is '
    'concrete there (the lookup itself is claimed by the val2idx '
    'obligations); time2t is not encoded',
    'bounds variable absent + method=bounds: claims are made only for values '
    'between the outer centres or beyond the half-spacing-extrapolated outer '
    'edges (the cell edges are not defined by the file in between)',
]


class _WarnRec(object):
    def __init__(self):
        self.msgs = []

    def warn(self, *a, **k):
        self.msgs.append(str(a[0]) if a else '')


def _absz(e):
    return z3.If(e >= 0, e, -e)


class Val2Idx(Obligation):
    mode = 'real'
    stubs = ('numpy.interp (documented definition)', 'pncwarn.warn (recorder)')
    validate_paths = 6
    timeout_ms = 20000

    def __init__(self, n, direction, bvar, method, bounds, clean, lr, nq=1):
        self.n, self.dir, self.bvar = n, direction, bvar
        self.method, self.bnd, self.clean, self.lr = method, bounds, clean, lr
        self.nq = nq
        self.name = 'val2idx[n=%d,%s,bvar=%s,%s,bounds=%s,clean=%s,lr=%s,nq=%d]' % (
            n, direction, bvar, method, bounds, clean, lr, nq)
        self.bounds = {'n': n, 'queries': nq, 'coordinate values': 'unbounded '
                       'reals, strictly monotonic', 'query': 'unbounded real'}
        self._space = None

    # ---------------------------------------------------------------- twin
    def space(self):
        if self._space is None:
            self._wr = _WarnRec()
            import types
            pw = types.ModuleType('PseudoNetCDF.pncwarn')
            pw.warn = self._wr.warn
            self._space = loader.TwinSpace(stubs={'PseudoNetCDF.pncwarn': pw})
            self._space.twin('PseudoNetCDF.core._files')
        return self._space

    def _build(self, F, np, cs, es):
        n = self.n
        f = F()
        f.createDimension('x', n)
        ic = getattr(self, 'icoord', None)
        v = f.createVariable('x', 'i' if ic else ('O' if np is None else 'd'),
                             ('x',))
        for i in range(n):
            v[i] = int(ic[i]) if ic else cs[i]
        if self.bvar == 'edges1d':
            f.createDimension('xe', n + 1)
            b = f.createVariable('x_bounds', 'O' if np is None else 'd',
                                 ('xe',))
            for i in range(n + 1):
                b[i] = es[i]
        elif self.bvar == 'nx2':
            f.createDimension('nv', 2)
            b = f.createVariable('x_bnds', 'O' if np is None else 'd',
                                 ('x', 'nv'))
            for i in range(n):
                b[i, 0] = es[i]
                b[i, 1] = es[i + 1]
        return f

    def sym(self, ctx, h):
        sp = self.space()
        self._wr.msgs = []
        F = sp.twin('PseudoNetCDF.core._files').PseudoNetCDFFile
        n = self.n
        sgn = 1 if self.dir == 'asc' else -1
        if getattr(self, 'icoord', None):
            # coordinate stored with an integer type: concrete values
            from verifx import symx as _sx
            cs = [_sx.SymReal(z3.RealVal(int(x))) for x in self.icoord]
        else:
            cs = [ctx.real('c%d' % i) for i in range(n)]
        for a, b in zip(cs[:-1], cs[1:]):
            ctx.assume(sgn * (b.e - a.e) > 0)
        es = None
        if self.bvar != 'none':
            es = [ctx.real('e%d' % i) for i in range(n + 1)]
            for i in range(n):
                ctx.assume(sgn * (cs[i].e - es[i].e) > 0)
                ctx.assume(sgn * (es[i + 1].e - cs[i].e) > 0)
        qs = [ctx.real('q%d' % i) for i in range(self.nq)]
        f = self._build(F, None, cs, es)
        kw = dict(method=self.method, bounds=self.bnd, clean=self.clean)
        if self.lr == 'nan':
            kw['left'] = float('nan')
            kw['right'] = float('nan')
        raised = None
        out = None
        try:
            out = f.val2idx('x', list(qs), **kw)
        except Exception as ex:
            raised = type(ex).__name__
        warned = any('out of bounds' in m for m in self._wr.msgs)
        res = []
        if raised is None:
            import numpy as np
            mask = np.ma.getmaskarray(out)
            data = np.ma.getdata(out)
            for k in range(self.nq):
                res.append('masked' if mask[k] else int(data[k]))
        h.observe('raised', raised)
        h.observe('warned', warned)
        h.observe('idx', res)
        ce = [c.e for c in cs]
        ee = [e.e for e in es] if es else None
        for k, q in enumerate(qs):
            self._claims(h, k, q.e, ce, ee, raised, warned,
                         res[k] if raised is None else None, qs)

    # -------------------------------------------------------------- oracle
    def _claims(self, h, k, q, c, e, raised, warned, r, qs):
        n = self.n
        sgn = 1 if self.dir == 'asc' else -1
        lo_c, hi_c = (c[0], c[-1]) if sgn > 0 else (c[-1], c[0])
        if e is not None:
            lo, hi = (e[0], e[-1]) if sgn > 0 else (e[-1], e[0])
            lo_out, hi_out = lo, hi
        else:
            lo, hi = lo_c, hi_c
            if sgn > 0:
                lo_out = c[0] - (c[1] - c[0]) / 2
                hi_out = c[-1] + (c[-1] - c[-2]) / 2
            else:
                lo_out = c[-1] - (c[-2] - c[-1]) / 2
                hi_out = c[0] + (c[0] - c[1]) / 2
        if self.method == 'nearest' or self.method == 'exact':
            dom_lo, dom_hi = (lo_c, hi_c)
            if e is not None and self.method == 'nearest':
                # out-of-range is judged against the edges when present
                dom_lo, dom_hi = lo, hi
        else:
            dom_lo, dom_hi = lo, hi
        definitely_out = z3.Or(q < lo_out, q > hi_out)
        any_out = z3.Or(*[z3.Or(x.e < lo_out, x.e > hi_out) for x in qs])
        all_in = z3.And(*[z3.And(x.e >= dom_lo, x.e <= dom_hi) for x in qs])
        inside = z3.And(q >= dom_lo, q <= dom_hi)
        p = 'q%d:' % k
        # ---- completion / rejection
        if raised is not None:
            if raised == 'ValueError' and self.bnd == 'error':
                # must only reject when some value really is out of range
                h.claim(p + 'reject-only-out-of-range', z3.Not(all_in))
            else:
                h.candidate(p + 'in-domain-call-raised:' + raised, raised)
            return
        if self.bnd == 'error':
            h.claim(p + 'error-must-reject', z3.Not(any_out))
        if self.bnd == 'warn':
            h.claim(p + 'warn-must-warn', z3.Implies(any_out, z3.BoolVal(
                warned)))
        # ---- out of range never reported in a cell when masking requested
        if self.clean == 'mask' and self.lr == 'nan' and r != 'masked':
            h.claim(p + 'out-of-range-must-be-masked', z3.Not(definitely_out))
        # ---- a reported cell must exist
        if r != 'masked' and not (self.clean == 'none' and self.lr == 'nan'):
            h.claim(p + 'index-in-range', z3.BoolVal(0 <= r < n))
        # ---- in range: the right cell
        if self.method == 'nearest':
            if r == 'masked':
                h.claim(p + 'in-range-not-masked',
                        z3.Not(z3.And(q >= lo_c, q <= hi_c)))
            elif 0 <= r < n:
                h.claim(p + 'nearest', z3.Implies(
                    z3.And(q >= lo_c, q <= hi_c),
                    z3.And(*[_absz(q - c[r]) <= _absz(q - cj) for cj in c])))
        elif self.method == 'bounds':
            if e is not None:
                ee = e
            else:
                mids = [(c[i] + c[i + 1]) / 2 for i in range(n - 1)]
                ee = [c[0]] + mids + [c[-1]]
            rng = z3.And(q >= lo, q <= hi)
            if r == 'masked':
                h.claim(p + 'in-range-not-masked', z3.Not(rng))
            elif 0 <= r < n:
                a, b = ee[r], ee[r + 1]
                cell = z3.And(q >= a, q <= b) if sgn > 0 else \
                    z3.And(q <= a, q >= b)
                h.claim(p + 'containing-cell', z3.Implies(rng, cell))
        elif self.method == 'exact':
            if r == 'masked':
                h.claim(p + 'exact-equal-not-masked',
                        z3.And(*[q != cj for cj in c]))
            elif 0 <= r < n:
                h.claim(p + 'exact', q == c[r])
            else:
                h.claim(p + 'exact', z3.BoolVal(False))

    # ---------------------------------------------------------- real stack
    def real(self, inputs):
        import numpy as np
        from PseudoNetCDF.core import _files as RF
        n = self.n
        if getattr(self, 'icoord', None):
            cs = [float(x) for x in self.icoord]
        else:
            cs = [float(frac_of(inputs['c%d' % i])) for i in range(n)]
        es = None
        if self.bvar != 'none':
            es = [float(frac_of(inputs['e%d' % i])) for i in range(n + 1)]
        qs = [float(frac_of(inputs['q%d' % i])) for i in range(self.nq)]
        f = self._build(RF.PseudoNetCDFFile, np, cs, es)
        kw = dict(method=self.method, bounds=self.bnd, clean=self.clean)
        if self.lr == 'nan':
            kw['left'] = np.nan
            kw['right'] = np.nan
        rec = _WarnRec()
        old = RF.warn
        RF.warn = rec.warn
        raised = None
        out = None
        try:
            with warnings.catch_warnings():
                warnings.simplefilter('ignore')
                with np.errstate(all='ignore'):
                    out = f.val2idx('x', list(qs), **kw)
        except Exception as ex:
            raised = type(ex).__name__
        finally:
            RF.warn = old
        warned = any('out of bounds' in m for m in rec.msgs)
        res = []
        if raised is None:
            mask = np.ma.getmaskarray(out)
            data = np.ma.getdata(out)
            for k in range(self.nq):
                res.append('masked' if mask[k] else int(data[k]))
        viol = {}
        F = fractions.Fraction
        c = [F(x) for x in cs]
        e = [F(x) for x in es] if es else None
        q = [F(x) for x in qs]
        for k in range(self.nq):
            self._concrete(viol, k, q[k], c, e, raised, warned,
                           res[k] if raised is None else None, q)
        return {'obs': {'raised': raised, 'warned': warned, 'idx': res},
                'violations': viol, 'call': {'coord': cs, 'edges': es,
                                             'values': qs, 'kw': repr(kw)}}

    def _concrete(self, viol, k, q, c, e, raised, warned, r, qs):
        """independent concrete oracle (exact rational arithmetic on the
        float inputs, brute-force cell search)"""
        n = self.n
        p = 'q%d:' % k
        asc = self.dir == 'asc'
        lo_c, hi_c = min(c), max(c)
        if e is not None:
            lo, hi = min(e), max(e)
            lo_out, hi_out = lo, hi
        else:
            lo, hi = lo_c, hi_c
            srt = sorted(c)
            lo_out = srt[0] - (srt[1] - srt[0]) / 2
            hi_out = srt[-1] + (srt[-1] - srt[-2]) / 2
        if self.method in ('nearest', 'exact'):
            dom_lo, dom_hi = lo_c, hi_c
            if e is not None and self.method == 'nearest':
                dom_lo, dom_hi = lo, hi
        else:
            dom_lo, dom_hi = lo, hi
        out1 = lambda x: x < lo_out or x > hi_out  # noqa
        any_out = any(out1(x) for x in qs)
        all_in = all(dom_lo <= x <= dom_hi for x in qs)
        if raised is not None:
            if raised == 'ValueError' and self.bnd == 'error':
                if all_in:
                    viol[p + 'reject-only-out-of-range'] = \
                        'raised ValueError although every value is in range'
            else:
                viol[p + 'in-domain-call-raised:' + raised] = raised
            return
        if self.bnd == 'error' and any_out:
            viol[p + 'error-must-reject'] = 'no exception for out-of-range'
        if self.bnd == 'warn' and any_out and not warned:
            viol[p + 'warn-must-warn'] = 'no warning for out-of-range'
        if self.clean == 'mask' and self.lr == 'nan' and r != 'masked' \
                and out1(q):
            viol[p + 'out-of-range-must-be-masked'] = \
                'value %s outside [%s,%s] reported in cell %r' % (
                    float(q), float(lo_out), float(hi_out), r)
        if r != 'masked' and not (self.clean == 'none' and self.lr == 'nan'):
            if not (0 <= r < n):
                viol[p + 'index-in-range'] = 'index %r for %d cells' % (r, n)
        if self.method == 'nearest':
            inr = lo_c <= q <= hi_c
            if r == 'masked':
                if inr:
                    viol[p + 'in-range-not-masked'] = 'masked in-range value'
            elif 0 <= r < n and inr:
                best = min(abs(q - cj) for cj in c)
                if abs(q - c[r]) != best:
                    viol[p + 'nearest'] = 'got %d, nearest is %d' % (
                        r, [abs(q - cj) for cj in c].index(best))
        elif self.method == 'bounds':
            if e is not None:
                ee = e
            else:
                ee = [c[0]] + [(c[i] + c[i + 1]) / 2
                               for i in range(n - 1)] + [c[-1]]
            inr = lo <= q <= hi
            if r == 'masked':
                if inr:
                    viol[p + 'in-range-not-masked'] = 'masked in-range value'
            elif 0 <= r < n and inr:
                a, b = sorted((ee[r], ee[r + 1]))
                if not (a <= q <= b):
                    viol[p + 'containing-cell'] = \
                        'value %s reported in cell %d = [%s,%s]' % (
                            float(q), r, float(a), float(b))
        elif self.method == 'exact':
            if r == 'masked':
                if any(q == cj for cj in c):
                    viol[p + 'exact-equal-not-masked'] = 'masked exact match'
            elif not (0 <= r < n) or q != c[r]:
                viol[p + 'exact'] = 'index %r for non-equal value' % (r,)


# --------------------------------------------------------------------------
# datetime front ends: date2num / time2idx
# --------------------------------------------------------------------------
REF = (2000, 1, 1)


def _ratio(num, c):
    """exact rational num/c (num: z3 Int expression or int)"""
    e = num if z3.is_expr(num) else z3.IntVal(int(num))
    return symx.SymReal(z3.ToReal(e) / c, (e, c))
UNITS = {'hours': 3600, 'minutes': 60, 'seconds': 1, 'days': 86400}


class TimeLookup(Obligation):
    """date2num / time2idx with naive and timezone-aware datetimes: the
    number handed to val2idx is (instant in UTC - reference)/unit for every
    instant and every UTC offset, so an aware datetime and the naive UTC
    datetime of the same instant select the same index"""
    mode = 'real'
    validate_paths = 4
    stubs = ('datetime (symdatetime)',
             'netCDF4.date2num (reference: (t - ref)/unit, aware values '
             'converted to UTC as cftime documents)',
             'numpy.interp (documented definition)', 'pncwarn.warn (recorder)')

    COORD = (-3, 0.5, 40)

    def __init__(self, unit, kinds, method='nearest'):
        self.unit, self.kinds, self.method = unit, kinds, method
        self.name = 'time-lookup[%s,%s,%s]' % (unit, '+'.join(kinds), method)
        self.bounds = {'coordinate': 'concrete, non-uniform %r' % (
                           self.COORD,),
                       'instant': 'any whole second of 1999..2001',
                       'utc offset': 'any whole minute in (-24h, 24h)'}
        self._space = None

    def space(self):
        if self._space is None:
            from verifx import symdatetime as sd
            import types
            self._wr = _WarnRec()
            pw = types.ModuleType('PseudoNetCDF.pncwarn')
            pw.warn = self._wr.warn
            import netCDF4 as _real_nc4
            nc4 = types.ModuleType('netCDF4')
            nc4.__dict__.update(_real_nc4.__dict__)
            U = UNITS[self.unit]
            ref_us = sd.instant_us(*REF)

            def date2num(times, units, calendar='standard'):
                assert units.split()[0] == self.unit and \
                    calendar == 'standard', (units, calendar)
                out = []
                for t in list(times):
                    if t.tzinfo is not None:
                        t = t.astimezone(sd.timezone.utc).replace(tzinfo=None)
                    out.append(_ratio(symx._num(t.us)[1] - ref_us,
                                      U * 10 ** 6))
                import numpy as np
                a = np.empty(len(out), dtype=object)
                a[:] = out
                return a
            nc4.date2num = date2num
            self._space = loader.TwinSpace(stubs={
                'PseudoNetCDF.pncwarn': pw, 'datetime': sd.make_module(),
                'netCDF4': nc4})
            self._space.twin('PseudoNetCDF.core._files')
        return self._space

    def _file(self, F, cs, obj):
        f = F()
        f.createDimension('time', 3)
        v = f.createVariable('time', 'O' if obj else 'd', ('time',))
        for i in range(3):
            v[i] = cs[i]
        v.units = '%s since %04d-%02d-%02d 00:00:00' % ((self.unit,) + REF)
        return f

    def sym(self, ctx, h):
        from verifx import symdatetime as sd
        sp = self.space()
        self._wr.msgs = []
        F = sp.twin('PseudoNetCDF.core._files').PseudoNetCDFFile
        cs = list(self.COORD)
        f = self._file(F, cs, True)
        lo = sd.instant_us(1999, 1, 1) // 10 ** 6
        hi = sd.instant_us(2001, 12, 31) // 10 ** 6
        ts, exp = [], []
        U = UNITS[self.unit]
        ref_s = sd.instant_us(*REF) // 10 ** 6
        for k, kind in enumerate(self.kinds):
            s = ctx.int('s%d' % k, lo, hi)           # UTC instant (seconds)
            if kind == 'naive':
                t = sd.datetime._of(s * 10 ** 6, None, s)
            else:
                off = ctx.int('off%d' % k, -1439, 1439)   # minutes
                loc = s + off * 60
                tz = sd.timezone(sd.timedelta._of(off * 60 * 10 ** 6))
                t = sd.datetime._of(loc * 10 ** 6, tz, loc)
            ts.append(t)
            exp.append(_ratio(symx._num(s)[1] - ref_s, U))
        import sys
        sys.setprofile(sp.profile())
        try:
            try:
                num = f.date2num(list(ts), timekey='time')
            except Exception as ex:
                h.candidate('date2num-raised:' + type(ex).__name__,
                            repr(ex)[:200])
                return
            for k in range(len(ts)):
                h.claim('num[%d]' % k, common.eq_expr(num[k], exp[k]))
            try:
                got = f.time2idx(list(ts), dim='time', method=self.method,
                                 bounds='ignore')
                want = f.val2idx('time', list(exp), method=self.method,
                                 bounds='ignore')
            except Exception as ex:
                h.candidate('time2idx-raised:' + type(ex).__name__,
                            repr(ex)[:200])
                return
        finally:
            sys.setprofile(None)
        import numpy as np
        res = []
        for k in range(len(ts)):
            g, w = np.ma.getdata(got)[k], np.ma.getdata(want)[k]
            gm = bool(np.ma.getmaskarray(got)[k])
            wm = bool(np.ma.getmaskarray(want)[k])
            h.claim('idx[%d]' % k, z3.BoolVal(gm == wm and (
                gm or int(g) == int(w))))
            res.append('masked' if gm else int(g))
        h.observe('idx', res)

    def real(self, inputs):
        import datetime as dt
        import warnings
        import numpy as np
        from fractions import Fraction
        cs = list(self.COORD)
        U = UNITS[self.unit]
        ref = dt.datetime(*REF)
        ts, exp = [], []
        for k, kind in enumerate(self.kinds):
            s = int(frac_of(inputs.get('s%d' % k, 63082281600)))
            utc = dt.datetime(1, 1, 1) + dt.timedelta(seconds=s)
            if kind == 'naive':
                ts.append(utc)
            else:
                off = int(frac_of(inputs.get('off%d' % k, 0)))
                tz = dt.timezone(dt.timedelta(minutes=off))
                ts.append((utc + dt.timedelta(minutes=off)).replace(
                    tzinfo=tz))
            exp.append(Fraction(int((utc - ref).total_seconds()), U))
        viol = {}
        obs = {}
        with warnings.catch_warnings():
            warnings.simplefilter('ignore')
            from PseudoNetCDF import PseudoNetCDFFile
            f = self._file(PseudoNetCDFFile, [float(c) for c in cs], False)
            try:
                num = f.date2num(list(ts), timekey='time')
            except Exception as ex:
                return {'obs': {}, 'violations': {
                    'date2num-raised:' + type(ex).__name__: repr(ex)[:200]}}
            for k in range(len(ts)):
                if abs(Fraction(float(num[k])) - exp[k]) > Fraction(1, 10 ** 6):
                    viol['num[%d]' % k] = 'date2num %r, instant is %s %s ' \
                        'after the reference' % (float(num[k]),
                                                 float(exp[k]), self.unit)
            try:
                got = f.time2idx(list(ts), dim='time', method=self.method,
                                 bounds='ignore')
                want = f.val2idx('time', [float(e) for e in exp],
                                 method=self.method, bounds='ignore')
            except Exception as ex:
                viol['time2idx-raised:' + type(ex).__name__] = repr(ex)[:200]
                return {'obs': {}, 'violations': viol}
            res = []
            for k in range(len(ts)):
                gm = bool(np.ma.getmaskarray(got)[k])
                wm = bool(np.ma.getmaskarray(want)[k])
                g, w = np.ma.getdata(got)[k], np.ma.getdata(want)[k]
                if gm != wm or (not gm and int(g) != int(w)):
                    viol['idx[%d]' % k] = 'time2idx %r, val2idx of the ' \
                        'instant %r' % (got.tolist(), want.tolist())
                res.append('masked' if gm else int(g))
            obs['idx'] = res
        return {'obs': obs, 'violations': viol}


def obligations(tier):
    obs = []
    ns = (2, 3) if tier == 'quick' else (2, 3, 4, 5)
    for n, d, bv, m in itertools.product(
            ns, ('asc', 'desc'), ('none', 'edges1d', 'nx2'),
            ('nearest', 'bounds', 'exact')):
        if tier == 'quick':
            opts = [('ignore', 'mask', 'None'), ('warn', 'mask', 'nan'),
                    ('error', 'none', 'None')]
            if n == 3:
                opts.append(('warn', 'none', 'None'))
                opts.append(('ignore', 'mask', 'nan'))
        else:
            opts = list(itertools.product(('ignore', 'warn', 'error'),
                                          ('none', 'mask'), ('None', 'nan')))
        for b, c, lr in opts:
            obs.append(Val2Idx(n, d, bv, m, b, c, lr, 1))
    # two query values in one call (rejection/warning depend on *any* value)
    for d, bv, m in itertools.product(('asc', 'desc'),
                                      ('none', 'edges1d'),
                                      ('nearest', 'bounds')):
        for b, c, lr in [('error', 'none', 'None'), ('warn', 'mask', 'nan')]:
            obs.append(Val2Idx(2 if tier == 'quick' else 3, d, bv, m, b, c,
                               lr, 2))
    # coordinates stored with an integer type, real-valued queries
    for d, m in itertools.product(('asc', 'desc'),
                                  ('exact', 'nearest', 'bounds')):
        o = Val2Idx(3, d, 'none', m, 'ignore', 'mask', 'None', 1)
        o.icoord = (1, 3, 4) if d == 'asc' else (4, 3, 1)
        o.name = o.name.replace('val2idx[', 'val2idx[int-coord,')
        o.bounds = dict(o.bounds, **{'coordinate values': 'int32 %r' % (
            o.icoord,)})
        obs.append(o)
    # datetime front ends
    for unit, kinds in (('hours', ('naive',)), ('hours', ('aware',)),
                        ('hours', ('naive', 'aware')),
                        ('minutes', ('aware', 'aware')),
                        ('days', ('aware',))):
        obs.append(TimeLookup(unit, kinds))
    if tier == 'thorough':
        for unit in ('hours', 'seconds'):
            for m in ('nearest', 'exact'):
                obs.append(TimeLookup(unit, ('aware', 'naive', 'aware'), m))
    return obs


MANIFEST = {
    'category': 'model_checking',
    'technique': 'symbolic execution of the real val2idx source on z3 reals '
                 '(twin loader + numpy object arrays), per-path SMT validity '
                 'queries, replay of every model on the unpatched library',
    'text': 'Bounded symbolic checking: for every enumerated configuration '
            '(n<=3 quick / n<=5 thorough, both directions, three bounds '
            'representations, all methods and option combinations) z3 shows '
            'over ALL real-valued strictly monotonic coordinates, consistent '
            'edges and query values that the index returned by the real '
            'val2idx code is the nearest/containing/equal cell, that '
            'rejection/warning/masking happen as requested and that no '
            'non-existent cell is reported. Not a proof: n is bounded and '
            'floats are reals. Datetime lookups: for every instant (whole '
            'seconds, 1999-2001) and every UTC offset the real date2num/'
            'time2idx code hands val2idx the number of units between the '
            'instant and the reference, for naive, aware and mixed inputs.'
            ' Also: coordinates stored as int32 (concrete values) with real-valued symbolic queries, all three methods.',
    'note': 'Trusted: z3; the shim definitions of np.interp/np.round/'
            'masked_invalid on symbolic scalars (cross-checked on every path '
            'by replaying one model on real numpy and comparing index, '
            'warning and exception); real numpy for indexing/views. '
            'netCDF4.date2num itself (C code) is a stub, compared with the '
            'real one in replay.',
}
