"""C10 -- IOAPI metadata stays coherent under every operation.

Encoded: cmaqfiles/_ioapi.py ioapi_base (updatemeta, getVarlist, _add2Varlist,
updatetflag, copy, copyVariable, createVariable, subsetVariables,
sliceDimensions, applyAlongDimensions, eval, mask, interpSigma) and the base
class methods they call, on a symbolic IOAPI file (start date/time symbolic via
symdatetime, operation arguments symbolic, data concrete -- coherence is about
structure and time flags)."""
import numpy as np
import z3

from verifx import symx, loader, symdatetime as sd
from verifx.harness import Obligation
from verifx.symx import frac_of
from . import common
from .c11 import _flag, _I, TSTEPS
from .c12 import _valid_date, _g

PROPERTY = 'C10'
LEVEL = 'model_checking'
ASSUMPTIONS = [
    'gridded IOAPI files built in memory (2 data variables, sizes <= 3 per '
    'dimension); boundary (PERIM) files, GRIDDESC text and disk-backed ioapi '
    'are outside',
    'data values concrete; start date (day of year, time) and operation '
    'arguments symbolic; start year enumerated in {2003, 2004}',
    'L1 (establishment): updatemeta() from enumerated incoherent states '
    '(wrong NVARS, stale/permuted/over-long VAR-LIST, missing or mis-shaped '
    'TFLAG, wrong VAR dimension) with a symbolic NVARS value',
    'L2 (preservation): one operation from a coherent state; sequences follow '
    'because every result is again a coherent state of the same family',
]

MANIFEST = {
    'category': 'model_checking',
    'technique': 'symbolic execution of the real ioapi_base methods with a '
                 'symbolic datetime model; coherence predicate evaluated on '
                 'every path, time-flag equalities decided by z3; replay on '
                 'the unpatched library',
    'text': 'Bounded symbolic checking: (L1) from enumerated incoherent '
            'states with a symbolic NVARS, updatemeta() establishes '
            'coherence; (L2) from a coherent state each overriding operation '
            '(copy, slice by int/slice, subset, rename, apply along ROW/COL/'
            'LAY/TSTEP, eval, mask, stack, interpSigma) with symbolic '
            'arguments yields a file whose NVARS, VAR-LIST, VAR dimension '
            'and TFLAG second axis agree, whose listed variables exist with '
            'the standard dimensions, whose NCOLS/NROWS/NLAYS equal the '
            'dimension lengths, whose VGLVLS has NLAYS+1 entries, whose '
            'SDATE/STIME equal the first time flag and whose TSTEP dimension '
            'is unlimited.'
            ' Also: copy(data=False), index lists/steps over TSTEP and LAY, length-preserving callables along TSTEP; auxiliary variables sharing only the leading dimensions; files constructed by ioapi_base.from_arrays with and without a supplied TFLAG.',
    'note': 'Trusted: z3, symdatetime, real numpy. Structures bounded; '
            'operation pairs are not enumerated (induction over the coherent '
            'family).',
}


def coherence(f, symbolic):
    """list of (label, z3 bool) the file must satisfy"""
    out = []
    B = z3.BoolVal
    varlist = getattr(f, 'VAR-LIST', None)
    out.append(('has-VAR-LIST', B(isinstance(varlist, str))))
    if not isinstance(varlist, str):
        return out
    names = [varlist[i:i + 16].strip() for i in range(0, len(varlist), 16)]
    out.append(('VAR-LIST-width', B(len(varlist) % 16 == 0)))
    nv = getattr(f, 'NVARS', None)
    out.append(('NVARS==len(VAR-LIST)',
                symx._b(_I(nv) == len(names)) if nv is not None else B(False)))
    out.append(('VAR-dimension', B('VAR' in f.dimensions and
                                   len(f.dimensions['VAR']) ==
                                   max(len(names), 1))))
    tf = f.variables.get('TFLAG') if hasattr(f.variables, 'get') else None
    out.append(('has-TFLAG', B(tf is not None)))
    if tf is not None:
        out.append(('TFLAG-second-axis', B(tf.shape[1] ==
                                           max(len(names), 1))))
        out.append(('TFLAG-first-axis', B(
            'TSTEP' in f.dimensions and
            tf.shape[0] == len(f.dimensions['TSTEP']))))
        if tf.shape[0] > 0:
            out.append(('SDATE==TFLAG[0]', symx._b(
                _I(f.SDATE) == _I(tf[0, 0, 0])) if symbolic else
                B(int(f.SDATE) == int(tf[0, 0, 0]))))
            out.append(('STIME==TFLAG[0]', symx._b(
                _I(f.STIME) == _I(tf[0, 0, 1])) if symbolic else
                B(int(f.STIME) == int(tf[0, 0, 1]))))
    for n in names:
        ok = n in f.variables and tuple(f.variables[n].dimensions) == (
            'TSTEP', 'LAY', 'ROW', 'COL')
        out.append(('listed-variable:' + n, B(ok)))
    for k, v in f.variables.items():
        if k != 'TFLAG' and tuple(v.dimensions) == ('TSTEP', 'LAY', 'ROW',
                                                    'COL'):
            out.append(('variable-listed:' + k, B(k in names)))
    for att, dim in (('NCOLS', 'COL'), ('NROWS', 'ROW'), ('NLAYS', 'LAY')):
        if dim in f.dimensions:
            out.append((att, B(hasattr(f, att) and
                               int(getattr(f, att)) ==
                               len(f.dimensions[dim]))))
    if 'LAY' in f.dimensions and hasattr(f, 'VGLVLS'):
        out.append(('len(VGLVLS)==NLAYS+1', B(
            np.asarray(f.VGLVLS).size == len(f.dimensions['LAY']) + 1)))
    if 'TSTEP' in f.dimensions:
        out.append(('TSTEP-unlimited',
                    B(bool(f.dimensions['TSTEP'].isunlimited()))))
    out.append(('well-formed', B(not common.wf_problems(f))))
    return out


def build(IO, vals, T=2, L=2, R=2, C=2, tkey='1h', symbolic=True,
          update=True, aux=False):
    tstep, tsec = TSTEPS[tkey]
    f = IO()
    f.createDimension('TSTEP', T).setunlimited(True)
    f.createDimension('LAY', L)
    f.createDimension('ROW', R)
    f.createDimension('COL', C)
    f.SDATE, f.STIME, f.TSTEP = vals['sdate'], vals['stime'], tstep
    f.XORIG, f.YORIG, f.XCELL, f.YCELL = 0., 0., 1000., 1000.
    f.VGLVLS = np.linspace(1, 0, L + 1).astype('f')
    f.VGTOP = 5000.
    for name in ('O3', 'NO2'):
        v = f.createVariable(name, 'f', ('TSTEP', 'LAY', 'ROW', 'COL'),
                             units='ppmV')
        v[:] = np.arange(T * L * R * C, dtype='f').reshape(T, L, R, C)
    if aux:
        # auxiliary variable without the standard dimensions (never to be
        # listed in VAR-LIST)
        z = f.createVariable('ZH', 'f', ('TSTEP', 'LAY'), units='m')
        z[:] = 1.
        # ... and one that shares only the leading dimensions
        zr = f.createVariable('ZR', 'f', ('TSTEP', 'LAY', 'ROW'), units='m')
        zr[:] = 2.
    if update:
        f.updatemeta()
    return f


OPS = {}


def op(name, symargs=None):
    def deco(fn):
        OPS[name] = (fn, symargs)
        return fn
    return deco


@op('copy')
def _copy(f, a, g):
    return f.copy()


@op('copy-novars')
def _copy2(f, a, g):
    return f.copy(variables=False)


def _win(ctx, n):
    return {'k': ctx.int('k', -n, n - 1)}


@op('slice-TSTEP-int', lambda ctx, d: _win(ctx, d['TSTEP']))
def _s1(f, a, g):
    return f.sliceDimensions(TSTEP=a['k'])


@op('slice-LAY-int', lambda ctx, d: _win(ctx, d['LAY']))
def _s2(f, a, g):
    return f.sliceDimensions(LAY=a['k'])


@op('slice-COL-slice', lambda ctx, d: {
    'a': ctx.int('a', -d['COL'], d['COL']),
    'b': ctx.int('b', -d['COL'], d['COL'])})
def _s3(f, a, g):
    return f.sliceDimensions(COL=slice(a['a'], a['b']))


@op('slice-TSTEP-slice', lambda ctx, d: {
    'a': ctx.int('a', -d['TSTEP'], d['TSTEP']),
    'b': ctx.int('b', -d['TSTEP'], d['TSTEP'])})
def _s4(f, a, g):
    return f.sliceDimensions(TSTEP=slice(a['a'], a['b']))


@op('slice-LAY-list', lambda ctx, d: {
    'a': ctx.int('a', -d['LAY'], d['LAY'] - 1),
    'b': ctx.int('b', -d['LAY'], d['LAY'] - 1)})
def _s5(f, a, g):
    return f.sliceDimensions(LAY=[int(a['a']), int(a['b'])])


@op('slice-LAY-step')
def _s6(f, a, g):
    return f.sliceDimensions(LAY=slice(None, None, 2))


@op('slice-LAY-reversed')
def _s7(f, a, g):
    return f.sliceDimensions(LAY=slice(None, None, -1))


@op('subset')
def _sub(f, a, g):
    return f.subsetVariables(['NO2'])


@op('subset-exclude')
def _sub2(f, a, g):
    return f.subsetVariables(['NO2'], exclude=True)


@op('renameVariable')
def _ren(f, a, g):
    return f.renameVariable('O3', 'OZ')


@op('apply-ROW-mean')
def _ap1(f, a, g):
    return f.applyAlongDimensions(ROW='mean')


@op('apply-LAY-mean')
def _ap2(f, a, g):
    return f.applyAlongDimensions(LAY='mean')


@op('apply-LAY-callable')
def _ap2b(f, a, g):
    return f.applyAlongDimensions(LAY=lambda x: x[:2])


@op('apply-TSTEP-mean')
def _ap3(f, a, g):
    return f.applyAlongDimensions(TSTEP='mean')


@op('apply-TSTEP-max')
def _ap4(f, a, g):
    return f.applyAlongDimensions(TSTEP='max')


@op('copy-nodata')
def _cpnd(f, a, g):
    return f.copy(data=False)


@op('apply-TSTEP-reverse')
def _ap5(f, a, g):
    # a callable that keeps the number of steps
    return f.applyAlongDimensions(TSTEP=lambda x: x[::-1])


@op('apply-TSTEP-same-length')
def _ap6(f, a, g):
    return f.applyAlongDimensions(TSTEP=lambda x: (x + x[::-1]) / 2)


@op('slice-TSTEP-list', lambda ctx, d: {
    'a': ctx.int('a', -d['TSTEP'], d['TSTEP'] - 1),
    'b': ctx.int('b', -d['TSTEP'], d['TSTEP'] - 1)})
def _s8(f, a, g):
    return f.sliceDimensions(TSTEP=[int(a['a']), int(a['b'])])


@op('slice-TSTEP-list3', lambda ctx, d: {
    'a': ctx.int('a', 0, d['TSTEP'] - 1),
    'b': ctx.int('b', 0, d['TSTEP'] - 1),
    'c': ctx.int('c', 0, d['TSTEP'] - 1)})
def _s8b(f, a, g):
    return f.sliceDimensions(TSTEP=[int(a['a']), int(a['b']), int(a['c'])])


@op('slice-TSTEP-step')
def _s9(f, a, g):
    return f.sliceDimensions(TSTEP=slice(None, None, 2))


def selected_rows(opname, a, n):
    """time steps an operation selects (None: not a plain selection)"""
    if opname == 'slice-TSTEP-list':
        return [int(a['a']) % n, int(a['b']) % n]
    if opname == 'slice-TSTEP-list3':
        return [int(a['a']) % n, int(a['b']) % n, int(a['c']) % n]
    if opname == 'slice-TSTEP-step':
        return list(range(n))[::2]
    if opname == 'slice-TSTEP-int':
        return [int(a['k']) % n]
    if opname == 'slice-TSTEP-slice':
        return list(range(n))[slice(int(a['a']), int(a['b']))]
    return None


@op('eval')
def _ev(f, a, g):
    return f.eval('NOX = NO2 * 2')


@op('eval-copyall')
def _ev2(f, a, g):
    return f.eval('NOX = NO2 * 2', copyall=True)


@op('mask')
def _mk(f, a, g):
    return f.mask(greater=3.0)


@op('stack')
def _st(f, a, g):
    return f.stack(g, 'TSTEP')


@op('interpSigma')
def _is(f, a, g):
    return f.interpSigma(np.array([1., 0.5, 0.25, 0.]))


@op('createVariable')
def _cv(f, a, g):
    out = f.copy()
    out.createVariable('CO', 'f', ('TSTEP', 'LAY', 'ROW', 'COL'),
                       units='ppmV')
    out.updatemeta()
    return out


class _Base(Obligation):
    mode = 'int'
    validate_paths = 4
    max_paths = 600
    timeout_ms = 60000
    stubs = ('datetime (symdatetime)', 'np.zeros allocate object arrays')
    _space = None
    year = 2004

    def space(self):
        if self._space is None:
            self._wr = common.WarnRec()
            self._space = loader.TwinSpace(stubs={
                'PseudoNetCDF.pncwarn': common.warn_stub(self._wr),
                'datetime': sd.make_module()}, objfloat='all')
            self._space.twin('PseudoNetCDF.cmaqfiles._ioapi')
        return self._space

    def _symvals(self, ctx):
        sd.YEAR_RANGE = (self.year - 1, self.year + 1)
        sd.FORK_YEARS = True
        if getattr(self, 'rows_only', False):
            # row-selection claims do not depend on the start: day 365 at
            # 22 h (the steps cross into the next year), no forks on dates
            return {'sdate': self.year * 1000 + 365, 'stime': 220000}
        _valid_date(ctx, 'd', self.year, self.year)
        j = symx.SymInt(ctx.inputs['d_j'])
        H = ctx.int('t_H', 0, 23)
        return {'sdate': self.year * 1000 + j, 'stime': H * 10000}

    def _concvals(self, inputs):
        if getattr(self, 'rows_only', False):
            return {'sdate': self.year * 1000 + 365, 'stime': 220000}
        return {'sdate': self.year * 1000 + _g(inputs, 'd_j', 1),
                'stime': _g(inputs, 't_H') * 10000}


class Preserve(_Base):
    def __init__(self, opname, year=2004, T=2, L=2, aux=False):
        self.opname, self.year, self.T = opname, year, T
        self.L, self.aux = L, aux
        self.name = 'preserve[%s,%d,T=%d,L=%d%s]' % (
            opname, year, T, L, ',aux' if aux else '')
        self.bounds = {'op': opname, 'dims': (T, L, 2, 2), 'aux': aux}

    def _dims(self):
        return {'TSTEP': self.T, 'LAY': self.L, 'ROW': 2, 'COL': 2}

    def sym(self, ctx, h):
        sp = self.space()
        IO = sp.twin('PseudoNetCDF.cmaqfiles._ioapi').ioapi_base
        vals = self._symvals(ctx)
        if self.opname == 'stack':
            # the second file starts one day later: keep it inside the year
            ctx.assume(ctx.inputs['d_j'] <= 364, check=False)
        fn, symargs = OPS[self.opname]
        import sys
        sys.setprofile(sp.profile())
        try:
            try:
                f = build(IO, vals, T=self.T, L=self.L, aux=self.aux)
                g = build(IO, {'sdate': vals['sdate'] + 1,
                               'stime': vals['stime']}, T=self.T, L=self.L,
                          aux=self.aux) \
                    if self.opname == 'stack' else None
            except Exception as ex:
                h.candidate('build-raised:' + type(ex).__name__,
                            repr(ex)[:200])
                return
            for lab, e in coherence(f, True):
                h.claim('pre:' + lab, e)
            a = symargs(ctx, self._dims()) if symargs else {}
            if 'b' in a and self.opname.endswith('-slice'):
                ca, cb = int(a['a']), int(a['b'])
                n = self._dims()['COL' if 'COL' in self.opname else 'TSTEP']
                if len(range(n)[slice(ca, cb)]) == 0:
                    return
            try:
                out = fn(f, a, g)
            except Exception as ex:
                h.candidate('raised:' + type(ex).__name__, repr(ex)[:200])
                return
        finally:
            sys.setprofile(None)
        skip = ()
        rows = selected_rows(self.opname, a, self.T)
        if rows is not None and len(rows) > 1 and \
                rows != list(range(rows[0], rows[0] + len(rows))):
            # an irregular selection has no single TSTEP attribute; the
            # file-level start must still be the first selected flag
            skip = ()
        for lab, e in coherence(out, True):
            if lab not in skip and not getattr(self, 'rows_only', False):
                h.claim(lab, e)
        if rows is not None and 'TFLAG' in out.variables:
            src = f.variables['TFLAG']
            tf = out.variables['TFLAG']
            ok = tf.shape[0] == len(rows)
            h.claim('TFLAG-rows-selected:count', z3.BoolVal(bool(ok)))
            if ok:
                for k, r in enumerate(rows):
                    h.claim('TFLAG-rows-selected[%d]' % k, z3.And(
                        symx._b(_I(tf[k, 0, 0]) == _I(src[r, 0, 0])),
                        symx._b(_I(tf[k, 0, 1]) == _I(src[r, 0, 1]))))
        h.observe('dims', dict((k, len(v)) for k, v in
                               out.dimensions.items()))
        h.observe('varlist', getattr(out, 'VAR-LIST', None))

    def real(self, inputs):
        import warnings
        with warnings.catch_warnings():
            warnings.simplefilter('ignore')
            from PseudoNetCDF.cmaqfiles._ioapi import ioapi_base as IO
        vals = self._concvals(inputs)
        fn, symargs = OPS[self.opname]
        viol = {}
        a = dict((k, _g(inputs, k)) for k in ('k', 'a', 'b', 'c'))
        if 'slice' in self.opname and self.opname.endswith('slice'):
            n = self._dims()['COL' if 'COL' in self.opname else 'TSTEP']
            if len(range(n)[slice(a['a'], a['b'])]) == 0:
                return {'obs': {}, 'violations': {}}
        try:
            with warnings.catch_warnings():
                warnings.simplefilter('ignore')
                with np.errstate(all='ignore'):
                    f = build(IO, vals, T=self.T, L=self.L, symbolic=False,
                              aux=self.aux)
                    g = build(IO, {'sdate': vals['sdate'] + 1,
                                   'stime': vals['stime']}, T=self.T,
                              L=self.L, symbolic=False, aux=self.aux) \
                        if self.opname == 'stack' else None
                    out = fn(f, a, g)
        except Exception as ex:
            viol['raised:' + type(ex).__name__] = repr(ex)[:200]
            return {'obs': {}, 'violations': viol}
        rows = selected_rows(self.opname, a, self.T)
        if rows is not None and 'TFLAG' in out.variables:
            src = np.asarray(f.variables['TFLAG'][:, 0, :])
            tf = np.asarray(out.variables['TFLAG'][:, 0, :])
            if tf.shape[0] != len(rows):
                viol['TFLAG-rows-selected:count'] = '%d flags for %d ' \
                    'selected steps' % (tf.shape[0], len(rows))
            else:
                for k, r in enumerate(rows):
                    if tuple(tf[k]) != tuple(src[r]):
                        viol['TFLAG-rows-selected[%d]' % k] = \
                            'flag %r, selected step %d has %r' % (
                                tf[k].tolist(), r, src[r].tolist())
        for lab, e in coherence(out, False):
            if getattr(self, 'rows_only', False):
                break
            if not z3.is_true(z3.simplify(e)):
                viol[lab] = 'incoherent: %s (VAR-LIST=%r NVARS=%r VAR=%r)' % (
                    lab, getattr(out, 'VAR-LIST', None),
                    getattr(out, 'NVARS', None),
                    len(out.dimensions['VAR']) if 'VAR' in out.dimensions
                    else None)
        return {'obs': {'dims': dict((k, len(v)) for k, v in
                                     out.dimensions.items()),
                        'varlist': getattr(out, 'VAR-LIST', None)},
                'violations': viol}


BROKEN = ['nvars', 'varlist-stale', 'varlist-permuted', 'varlist-long',
          'varlist-empty', 'no-tflag', 'tflag-wide', 'var-dim', 'no-meta']


class Establish(_Base):
    def __init__(self, how, year=2004):
        self.how, self.year = how, year
        self.name = 'establish[%s,%d]' % (how, year)
        self.bounds = {'incoherent state': how}

    def _break(self, f, nv, symbolic):
        F = type(f).__mro__[1]    # PseudoNetCDFFile
        if self.how == 'nvars':
            f.NVARS = nv
        elif self.how == 'varlist-stale':
            setattr(f, 'VAR-LIST', 'O3'.ljust(16) + 'GONE'.ljust(16) +
                    'NO2'.ljust(16))
            f.NVARS = nv
        elif self.how == 'varlist-permuted':
            setattr(f, 'VAR-LIST', 'NO2'.ljust(16) + 'O3'.ljust(16))
        elif self.how == 'varlist-long':
            setattr(f, 'VAR-LIST', 'O3'.ljust(16) +
                    'AVERYLONGVARIABLENAME'.ljust(32) + 'NO2'.ljust(16))
        elif self.how == 'varlist-empty':
            setattr(f, 'VAR-LIST', '')
            f.NVARS = nv
        elif self.how == 'no-tflag':
            del f.variables['TFLAG']
        elif self.how == 'tflag-wide':
            del f.variables['TFLAG']
            f.createDimension('VAR', 3)
            tv = F.createVariable(f, 'TFLAG', 'O' if symbolic else 'i',
                                  ('TSTEP', 'VAR', 'DATE-TIME'))
            tv[:, :, 0] = 2000001
            tv[:, :, 1] = 0
        elif self.how == 'var-dim':
            f.createDimension('VAR', 4)
        elif self.how == 'no-meta':
            pass

    def sym(self, ctx, h):
        sp = self.space()
        IO = sp.twin('PseudoNetCDF.cmaqfiles._ioapi').ioapi_base
        vals = self._symvals(ctx)
        nv = ctx.int('nvars', -1, 5)
        import sys
        sys.setprofile(sp.profile())
        try:
            try:
                f = build(IO, vals, update=(self.how != 'no-meta'))
                self._break(f, nv, True)
                f.updatemeta()
            except Exception as ex:
                h.candidate('raised:' + type(ex).__name__, repr(ex)[:200])
                return
        finally:
            sys.setprofile(None)
        for lab, e in coherence(f, True):
            h.claim(lab, e)
        h.observe('varlist', getattr(f, 'VAR-LIST', None))

    def real(self, inputs):
        import warnings
        with warnings.catch_warnings():
            warnings.simplefilter('ignore')
            from PseudoNetCDF.cmaqfiles._ioapi import ioapi_base as IO
        vals = self._concvals(inputs)
        viol = {}
        try:
            with warnings.catch_warnings():
                warnings.simplefilter('ignore')
                f = build(IO, vals, symbolic=False,
                          update=(self.how != 'no-meta'))
                self._break(f, _g(inputs, 'nvars', 2), False)
                f.updatemeta()
        except Exception as ex:
            viol['raised:' + type(ex).__name__] = repr(ex)[:200]
            return {'obs': {}, 'violations': viol}
        for lab, e in coherence(f, False):
            if not z3.is_true(z3.simplify(e)):
                viol[lab] = 'incoherent after updatemeta: %s' % lab
        return {'obs': {'varlist': getattr(f, 'VAR-LIST', None)},
                'violations': viol}


class Construct(_Base):
    """ioapi_base.from_arrays(...) with or without a caller-supplied TFLAG:
    the constructed file and a ROW window of it are coherent (incl. the
    unlimited TSTEP dimension)"""

    def __init__(self, year, with_tflag, T=2):
        self.year, self.with_tflag, self.T = year, with_tflag, T
        self.name = 'construct[from_arrays,%d,T=%d,TFLAG=%s]' % (
            year, T, with_tflag)
        self.bounds = {'dims': (T, 2, 2, 2), 'TFLAG supplied': with_tflag}

    def _make(self, IO, vals, npmod):
        T = self.T
        arr = np.arange(T * 8, dtype='f').reshape(T, 2, 2, 2)
        kw = {'O3': arr, 'NO2': arr + 1}
        if self.with_tflag:
            tf = npmod.empty((T, 2, 2), dtype=object)
            for t in range(T):
                tf[t, :, 0] = vals['sdate']
                tf[t, :, 1] = vals['stime'] + t * 10000
            kw = dict(TFLAG=tf if npmod is not np else tf.astype('i'), **kw)
        f = IO.from_arrays(fileattrs={
            'SDATE': vals['sdate'], 'STIME': vals['stime'], 'TSTEP': 10000,
            'VGLVLS': np.linspace(1, 0, 3).astype('f'), 'VGTOP': 5000.,
            'XORIG': 0., 'YORIG': 0., 'XCELL': 1000., 'YCELL': 1000.}, **kw)
        return f, f.sliceDimensions(ROW=slice(0, 1))

    def sym(self, ctx, h):
        sp = self.space()
        IO = sp.twin('PseudoNetCDF.cmaqfiles._ioapi').ioapi_base
        # the structure does not depend on the date: day 100, symbolic hour
        # such that the supplied flags stay inside the start day
        sd.YEAR_RANGE = (self.year - 1, self.year + 1)
        sd.FORK_YEARS = True
        H = ctx.int('t_H', 0, 23 - self.T)
        vals = {'sdate': self.year * 1000 + 100, 'stime': H * 10000}
        import sys
        sys.setprofile(sp.profile())
        try:
            try:
                f, w = self._make(IO, vals, np)
            except Exception as ex:
                h.candidate('raised:' + type(ex).__name__, repr(ex)[:200])
                return
        finally:
            sys.setprofile(None)
        for lab, e in coherence(f, True):
            h.claim('constructed:' + lab, e)
        for lab, e in coherence(w, True):
            h.claim('window:' + lab, e)
        h.observe('varlist', getattr(f, 'VAR-LIST', None))

    def real(self, inputs):
        import warnings
        with warnings.catch_warnings():
            warnings.simplefilter('ignore')
            from PseudoNetCDF.cmaqfiles._ioapi import ioapi_base as IO
        H = _g(inputs, 't_H')
        vals = {'sdate': self.year * 1000 + 100,
                'stime': (H if 0 <= H <= 23 - self.T else 0) * 10000}
        viol = {}
        try:
            with warnings.catch_warnings():
                warnings.simplefilter('ignore')
                f, w = self._make(IO, vals, np)
        except Exception as ex:
            viol['raised:' + type(ex).__name__] = repr(ex)[:200]
            return {'obs': {}, 'violations': viol}
        for pre, g in (('constructed:', f), ('window:', w)):
            for lab, e in coherence(g, False):
                if not z3.is_true(z3.simplify(e)):
                    viol[pre + lab] = 'incoherent: %s' % lab
        return {'obs': {'varlist': getattr(f, 'VAR-LIST', None)},
                'violations': viol}

    any_violation_confirms = True


def obligations(tier):
    obs = []
    years = (2004,) if tier == 'quick' else (2003, 2004)
    for wt in (False, True):
        obs.append(Construct(2004, wt))
    for yr in years:
        for name in OPS:
            if name == 'slice-TSTEP-list3':
                # three symbolic indices: listed by checks/c02.py (row
                # claims); here only in the thorough tier
                if tier == 'thorough':
                    obs.append(Preserve(name, yr, 4))
                continue
            if name.startswith('slice-LAY-') and name != 'slice-LAY-int':
                obs.append(Preserve(name, yr, 2, L=4))
                continue
            obs.append(Preserve(name, yr, 2))
            if name in ('copy', 'slice-TSTEP-int', 'subset', 'eval',
                        'apply-ROW-mean', 'mask', 'createVariable'):
                obs.append(Preserve(name, yr, 2, aux=True))
            if tier == 'thorough' or name.startswith(('slice-TSTEP',
                                                      'apply-TSTEP')):
                obs.append(Preserve(name, yr, 3))
            if name in ('slice-TSTEP-list', 'slice-TSTEP-step',
                        'slice-TSTEP-list3'):
                obs.append(Preserve(name, yr, 4))
        for how in BROKEN:
            obs.append(Establish(how, yr))
    return obs
