"""C04 -- stacking concatenates in order and inverts splitting.

Encoded: PseudoNetCDFFile.stack, PseudoNetCDFFile.sliceDimensions (the split),
core/_functions.py:stack_files, _getreader.py:pncmfopen (with pncopen stubbed
by a table of in-memory files).  Data symbolic (reals), mask patterns
enumerated, cut points of the partition symbolic."""
import itertools
import types

import numpy as np
import z3

from verifx import symx
from verifx.harness import Obligation
from verifx.symx import frac_of
from . import common
from .common import FileSpec, VarSpec

PROPERTY = 'C04'
LEVEL = 'model_checking'
ASSUMPTIONS = [
    'floats as exact reals; data cells unconstrained symbolic values',
    'pieces of a partition are non-empty and consecutive; cut points are '
    'symbolic and forked where they reach numpy slicing',
    'stacked files conform: same variables/dimensions, differing only in the '
    'length of the stack dimension (and data/masks)',
    'pncmfopen: pncopen is a stub returning prepared in-memory files by '
    'path; only the order/stacking logic is claimed, not file I/O',
    'mask patterns enumerated (incl. first piece fully valid, masks only in '
    'later pieces)',
]

MANIFEST = {
    'category': 'model_checking',
    'technique': 'symbolic execution of the real stack/sliceDimensions/'
                 'stack_files/pncmfopen source on numpy object arrays of z3 '
                 'reals; SMT validity of cell-wise equality with the '
                 'concatenation / the original; replay on the unpatched '
                 'library',
    'text': 'Bounded symbolic checking: for enumerated small files (stack '
            'dimension on axis 0 and 1, lengths <= 4, K <= 3 files), all '
            'partitions (symbolic cut points) and all data values, stack() '
            'of the pieces reproduces data, masks, dimensions (order, '
            'lengths, unlimited flags) and attributes of the original; '
            'stacking independent files equals the concatenation in argument '
            'order with non-stack variables from the first file; slicing the '
            'stack at a piece extent reproduces the piece; stack_files and '
            'pncmfopen agree.'
            ' Also: masked variables with fill value 0; a path listed more than once in pncmfopen contributes its block each time.',
    'note': 'Trusted: z3, numpy concatenate/indexing itself, the reference '
            'concatenation written in the harness. Files on disk and '
            'warnings text are outside.',
}


def _spec(n, axis, masked, label, fill=-999.0):
    if axis == 0:
        dims = [('t', n, True), ('x', 2, False)]
        sd = 't'
        vs = [VarSpec('A', ('t', 'x'), attrs={'units': 'ppb'}),
              VarSpec('M', ('t', 'x'), masked=masked, fill=fill),
              VarSpec('X', ('x',), attrs={'units': 'm'}),
              VarSpec('t', ('t',), coord=True)]
    else:
        dims = [('t', 2, True), ('x', n, False)]
        sd = 'x'
        vs = [VarSpec('A', ('t', 'x'), attrs={'units': 'ppb'}),
              VarSpec('M', ('x', 't'), masked=masked, fill=fill),
              VarSpec('T', ('t',)),
              VarSpec('S', ())]
    return FileSpec(dims, vs, attrs={'title': 'test'}, label=label), sd


class SplitStack(common.SpaceMixin, Obligation):
    """split a file into K consecutive pieces at symbolic cut points, stack
    them: must reproduce the original; slicing the stack at each piece's
    extent must reproduce the piece"""
    mode = 'real'
    validate_paths = 6
    twin_modules = ('PseudoNetCDF.core._files', 'PseudoNetCDF.core._functions')

    def __init__(self, n, axis, masked, K, form='method', fill=-999.0):
        self.spec, self.sd = _spec(n, axis, masked,
                                   'n%d_ax%d_m%s' % (n, axis, '.'.join(
                                       map(str, masked))), fill=fill)
        self.n, self.K, self.form = n, K, form
        self.name = 'split-stack[%s|K=%d|%s%s]' % (
            self.spec.label, K, form, '' if fill == -999.0 else
            '|fill=%r' % fill)
        self.bounds = {'n': n, 'K': K, 'axis': axis, 'masked': masked,
                       'fill value': fill}

    def _cuts(self, ctx):
        cs = [ctx.int('p%d' % i, 1, self.n - 1) for i in range(self.K - 1)]
        for a, b in zip(cs[:-1], cs[1:]):
            ctx.assume(a.e < b.e)
        return cs

    def _run(self, F, fn_stack_files, f, cuts):
        edges = [0] + list(cuts) + [self.n]
        pieces = [f.sliceDimensions(**{self.sd: slice(a, b)})
                  for a, b in zip(edges[:-1], edges[1:])]
        if self.form == 'method':
            st = pieces[0].stack(pieces[1:], self.sd) if self.K > 1 else \
                pieces[0].stack([], self.sd)
        else:
            st = fn_stack_files(pieces, self.sd)
        back = [st.sliceDimensions(**{self.sd: slice(a, b)})
                for a, b in zip(edges[:-1], edges[1:])]
        return pieces, st, back

    def _check(self, src, pieces, st, back, cuts, claim, tol, h=None):
        spec = self.spec
        ref = dict((v.name, (v.dims,) + src[v.name]) for v in spec.vars)
        lens = dict((d[0], d[1]) for d in spec.dims)
        obs = common.compare_expected(
            st, spec, ref, lens, claim, tol=tol,
            check_attrs=(self.form == 'method'))
        claim('dimension-order', z3.BoolVal(
            self.form != 'method' or
            set(st.dimensions.keys()) == set(d[0] for d in spec.dims)))
        # slicing the stack at a piece extent reproduces the piece
        for k, (p, b) in enumerate(zip(pieces, back)):
            ok = True
            eqs = []
            for v in spec.vars:
                pv, bv = p.variables[v.name], b.variables[v.name]
                if tuple(pv.shape) != tuple(bv.shape) or \
                        tuple(pv.dimensions) != tuple(bv.dimensions):
                    ok = False
                    continue
                pm, bm = common.getmask(pv), common.getmask(bv)
                if not (pm == bm).all():
                    ok = False
                pd, bd = common.getdata(pv), common.getdata(bv)
                for idx in np.ndindex(*pv.shape):
                    if not pm[idx]:
                        eqs.append(common.eq_expr(pd[idx], bd[idx])
                                   if tol is None else
                                   common.close_expr(pd[idx], bd[idx], tol))
            claim('slice-of-stack:piece%d' % k,
                  z3.And(z3.BoolVal(ok), *eqs) if eqs else z3.BoolVal(ok))
        if h is not None:
            for k, val in obs.items():
                h.observe(k, val)
        return obs

    def sym(self, ctx, h):
        sp = self.space()
        F = sp.twin('PseudoNetCDF.core._files').PseudoNetCDFFile
        sf = sp.twin('PseudoNetCDF.core._functions').stack_files
        vals = common.sym_values(ctx, self.spec)
        cuts = self._cuts(ctx)
        f = common.build(F, self.spec, vals, True)
        try:
            pieces, st, back = self.profiled(self._run, F, sf, f, cuts)
        except Exception as ex:
            h.candidate('in-domain-call-raised:' + type(ex).__name__,
                        repr(ex)[:200])
            return
        src = common.source_arrays(self.spec, vals, True)
        self._check(src, pieces, st, back, cuts, h.claim, None, h)

    def real(self, inputs):
        import warnings
        RF = common.real_files()
        from PseudoNetCDF.core._functions import stack_files
        vals = common.concrete_values(self.spec, inputs)
        f = common.build(RF.PseudoNetCDFFile, self.spec, vals, False)
        cuts = [int(frac_of(inputs.get('p%d' % i, i + 1)))
                for i in range(self.K - 1)]
        viol = {}

        def claim(label, e):
            if not z3.is_true(z3.simplify(e)):
                viol[label] = 'differs (%s)' % label
        try:
            with warnings.catch_warnings():
                warnings.simplefilter('ignore')
                pieces, st, back = self._run(RF.PseudoNetCDFFile,
                                             stack_files, f, cuts)
        except Exception as ex:
            viol['in-domain-call-raised:' + type(ex).__name__] = \
                repr(ex)[:200]
            return {'obs': {}, 'violations': viol}
        src = common.source_arrays(self.spec, vals, False)
        obs = self._check(src, pieces, st, back, cuts, claim, 1e-12)
        return {'obs': obs, 'violations': viol, 'cuts': cuts}


class Concat(common.SpaceMixin, Obligation):
    """stack K independent files: equals the concatenation in argument order"""
    mode = 'real'
    validate_paths = 4
    twin_modules = ('PseudoNetCDF.core._files', 'PseudoNetCDF.core._functions',
                    'PseudoNetCDF._getreader')

    def __init__(self, lens, axis, masks, form='method', paths=None,
                 fill=-999.0):
        self.lens, self.axis, self.masks, self.form = lens, axis, masks, form
        self.paths = paths
        # a path given more than once names the same file each time
        self.order = [paths.index(p) for p in paths] if paths else \
            list(range(len(lens)))
        self.specs = []
        for k, (n, m) in enumerate(zip(lens, masks)):
            k0 = self.order[k]
            sp, self.sd = _spec(lens[k0], axis, masks[k0], 'f%d' % k,
                                fill=fill)
            self.specs.append(sp)
        self.lens = lens = tuple(lens[k0] for k0 in self.order)
        self.name = 'concat[%s|ax%d|masks=%s|%s%s]' % (
            '+'.join(map(str, lens)), axis,
            '/'.join('.'.join(map(str, m)) if m is not None else '-'
                     for m in masks), form,
            '|' + ','.join(paths) if paths else '')
        self.bounds = {'lengths': lens, 'axis': axis, 'masks': masks}

    def _stack(self, files, sf, reader_mod):
        if self.form == 'method':
            return files[0].stack(files[1:], self.sd)
        if self.form == 'function':
            return sf(files, self.sd)
        # pncmfopen with a stubbed pncopen
        table = dict(zip(self.paths, files))
        old = reader_mod.pncopen
        reader_mod.pncopen = lambda path, *a, **k: table[path]
        try:
            return reader_mod.pncmfopen(list(self.paths), stackdim=self.sd)
        finally:
            reader_mod.pncopen = old

    def _expected(self, srcs):
        ref = {}
        for v in self.specs[0].vars:
            if self.sd in v.dims:
                ax = v.dims.index(self.sd)
                d = np.concatenate([s[v.name][0] for s in srcs], axis=ax)
                m = np.concatenate([s[v.name][1] for s in srcs], axis=ax)
            else:
                d, m = srcs[0][v.name]
            ref[v.name] = (v.dims, d, m)
        lens = dict((d[0], d[1]) for d in self.specs[0].dims)
        lens[self.sd] = sum(self.lens)
        return ref, lens

    def sym(self, ctx, h):
        sp = self.space()
        F = sp.twin('PseudoNetCDF.core._files').PseudoNetCDFFile
        sf = sp.twin('PseudoNetCDF.core._functions').stack_files
        rm = sp.twin('PseudoNetCDF._getreader')
        files, srcs = [], []
        for k, spec in enumerate(self.specs):
            vals = common.sym_values(ctx, spec, prefix='f%d' % k)
            files.append(common.build(F, spec, vals, True))
            srcs.append(common.source_arrays(spec, vals, True))
        files = [files[i] for i in self.order]
        srcs = [srcs[i] for i in self.order]
        try:
            st = self.profiled(self._stack, files, sf, rm)
        except Exception as ex:
            h.candidate('in-domain-call-raised:' + type(ex).__name__,
                        repr(ex)[:200])
            return
        ref, lens = self._expected(srcs)
        obs = common.compare_expected(st, self.specs[0], ref, lens, h.claim,
                                      check_attrs=(self.form != 'function'))
        for k, val in obs.items():
            h.observe(k, val)

    def real(self, inputs):
        import warnings
        RF = common.real_files()
        from PseudoNetCDF.core._functions import stack_files
        from PseudoNetCDF import _getreader as rm
        files, srcs = [], []
        for k, spec in enumerate(self.specs):
            vals = common.concrete_values(spec, inputs, prefix='f%d' % k)
            # distinct defaults per file
            for key in vals:
                if ('f%d_%s_%d' % (k, key[0], key[1])) not in inputs:
                    vals[key] = vals[key] + 100000.0 * k
            files.append(common.build(RF.PseudoNetCDFFile, spec, vals, False))
            srcs.append(common.source_arrays(spec, vals, False))
        files = [files[i] for i in self.order]
        srcs = [srcs[i] for i in self.order]
        viol = {}

        def claim(label, e):
            if not z3.is_true(z3.simplify(e)):
                viol[label] = 'differs (%s)' % label
        try:
            with warnings.catch_warnings():
                warnings.simplefilter('ignore')
                st = self._stack(files, stack_files, rm)
        except Exception as ex:
            viol['in-domain-call-raised:' + type(ex).__name__] = \
                repr(ex)[:200]
            return {'obs': {}, 'violations': viol}
        ref, lens = self._expected(srcs)
        obs = common.compare_expected(st, self.specs[0], ref, lens, claim,
                                      check_attrs=(self.form != 'function'),
                                      tol=1e-12)
        return {'obs': obs, 'violations': viol}


def obligations(tier):
    obs = []
    ns = (2, 3) if tier == 'quick' else (2, 3, 4, 5)
    for n in ns:
        for axis in (0, 1):
            cells = 2 * n
            # masks: none masked cell in first rows / only late cells /
            # scattered
            if axis == 0:
                late = tuple(range(cells - 2, cells))      # last t row
            else:
                late = (cells - 1, cells - 2)               # M is (x, t)
            patterns = [late, (0,), tuple(range(0, cells, 3))]
            for m in patterns:
                for K in range(1, min(n, 3) + 1):
                    for form in ('method', 'function'):
                        if form == 'function' and (tier == 'quick' and
                                                   m != late):
                            continue
                        obs.append(SplitStack(n, axis, m, K, form))
    combos = [((1, 2), ((), (0, 3))), ((2, 1), ((), (1,))),
              ((1, 1, 2), ((), (), (2, 3))), ((2, 2), ((1,), ())),
              ((1, 1), ((0, 1), ())),
              # three pieces of unequal length, longest first / in the middle
              ((2, 1, 1), ((), (1,), ())), ((1, 2, 1), ((), (), (0,)))]
    if tier == 'thorough':
        combos += [((3, 1, 2), ((), (0,), (1, 2))), ((2, 3), ((), (5,)))]
    for lens, masks in combos:
        for axis in (0, 1):
            for form in ('method', 'function'):
                obs.append(Concat(lens, axis, masks, form))
    # multi-file open helper: order of the given paths must be kept
    for paths in (['b.nc', 'a.nc'], ['part_9', 'part_10', 'part_2']):
        lens = (1, 2) if len(paths) == 2 else (1, 1, 2)
        masks = ((), (0,)) if len(paths) == 2 else ((), (), (1,))
        obs.append(Concat(lens, 0, masks, 'pncmfopen', paths))
    # the same path listed more than once: its block appears each time
    obs.append(Concat((1, 2, 2, 1), 0, ((), (0,), (0,), (1,)), 'pncmfopen',
                      ['a.nc', 'b.nc', 'b.nc', 'c.nc']))
    obs.append(Concat((2, 2), 0, ((1,), (1,)), 'pncmfopen',
                      ['a.nc', 'a.nc']))
    # a masked variable whose fill value is 0 (falsy)
    for form in ('method', 'function'):
        obs.append(Concat((1, 2), 0, ((0,), (0, 3)), form, fill=0.0))
        obs.append(SplitStack(3, 0, (4, 5), 2, form, fill=0.0))
    obs.append(SplitStack(3, 1, (0,), 3, 'method', fill=0.0))
    return obs
