"""C11 -- IOAPI subsetting preserves geo- and time-referencing.

Encoded: cmaqfiles/_ioapi.py ioapi_base.sliceDimensions (with the base-class
sliceDimensions, getTimes, updatemeta/updatetflag/getVarlist) on a symbolic
IOAPI file: XORIG/YORIG/XCELL/YCELL and VGLVLS are symbolic reals, the start
date/time symbolic (symdatetime), the window an integer or a unit-stride slice
with symbolic ends."""
import z3
import numpy as np

from verifx import symx, loader, symdatetime as sd
from verifx.harness import Obligation
from verifx.symx import frac_of
from . import common
from .c12 import ref_instant, _valid_date, _g, US

PROPERTY = 'C11'
LEVEL = 'model_checking'
ASSUMPTIONS = [
    'floats as exact reals (grid origin/cell size/level edges)',
    'datetime = symdatetime; start year enumerated in {1999, 2000, 2003, '
    '2004} (leap, non-leap, before/after a leap year), day of year and time '
    'symbolic incl. leap days and year ends; TSTEP in {1 h, 30 min, 3 h, '
    '24 h}',
    'windows: an integer (positive or negative) or a unit-stride non-empty '
    'slice per dimension; list/array windows are outside',
    'grid sizes enumerated (NCOLS/NROWS/NLAYS/T in 1..3), one data variable',
]

MANIFEST = {
    'category': 'model_checking',
    'technique': 'symbolic execution of the real ioapi_base.sliceDimensions '
                 'and the metadata updaters on z3 reals/integers with a '
                 'symbolic datetime model; SMT validity of origin/level/time '
                 'referencing; replay on the unpatched library',
    'text': 'Bounded symbolic checking: for grids up to 3x3x3 and 3 time '
            'steps, over ALL real origins/cell sizes/level edges, ALL start '
            'dates 1990-2030 and times, and ALL integer or unit-stride '
            'windows on ROW, COL, LAY or TSTEP, the subset keeps every '
            'retained cell\'s coordinates (XORIG/YORIG moved by first index '
            'times cell size), level bounds (matching VGLVLS sub-range) and '
            'timestamps (SDATE/STIME/TSTEP and decoded times equal the '
            'source sub-range).'
            ' Also: ROW and COL integers together (Python and numpy integers), grid origin held as an array.',
    'note': 'Trusted: z3, symdatetime, numpy indexing (real). Floats are '
            'reals; list/array windows not covered.',
}

TSTEPS = {'1h': (10000, 3600), '30min': (3000, 1800), '3h': (30000, 10800),
          '24h': (240000, 86400)}


def build_ioapi(IO, ctx, T, L, R, C, tkey, symbolic=True, vals=None,
                tflag=True):
    """gridded IOAPI file with one variable O3; returns (file, params)"""
    tstep, tsec = TSTEPS[tkey]
    f = IO()
    f.createDimension('TSTEP', T).setunlimited(True)
    f.createDimension('LAY', L)
    f.createDimension('ROW', R)
    f.createDimension('COL', C)
    p = vals
    f.SDATE = p['sdate']
    f.STIME = p['stime']
    f.TSTEP = tstep
    f.XORIG, f.YORIG = p['xorig'], p['yorig']
    if p.get('attr') == 'array':
        # attribute values held as one-element arrays
        dt = object if symbolic else 'd'
        f.XORIG = np.array([p['xorig']], dtype=dt)
        f.YORIG = np.array([p['yorig']], dtype=dt)
    f.XCELL, f.YCELL = p['xcell'], p['ycell']
    f.VGLVLS = np.array(p['vglvls'], dtype=object if symbolic else 'f')
    f.VGTOP = 5000.
    f.NLAYS, f.NROWS, f.NCOLS = L, R, C
    v = f.createVariable('O3', 'O' if symbolic else 'f',
                         ('TSTEP', 'LAY', 'ROW', 'COL'), units='ppmV')
    k = 0
    for idx in np.ndindex(T, L, R, C):
        v[idx] = float(k)
        k += 1
    if tflag:
        f.updatemeta()
    return f


class Subset(Obligation):
    mode = 'real/int'
    validate_paths = 5
    max_paths = 1200
    timeout_ms = 60000
    stubs = ('datetime (symdatetime)', 'np.zeros allocate object arrays')
    _space = None

    def __init__(self, dim, kind, T=2, L=2, R=2, C=2, tkey='1h', year=2000,
                 tflag=True, attr='scalar'):
        self.year = year
        self.tflag = tflag
        self.attr = attr
        self.dim, self.kind = dim, kind
        self.T, self.L, self.R, self.C, self.tkey = T, L, R, C, tkey
        self.name = 'subset[%s=%s|T%dL%dR%dC%d,%s,%d%s]' % (
            dim, kind, T, L, R, C, tkey, year, '' if tflag else ',noTFLAG')
        if attr != 'scalar':
            self.name = self.name[:-1] + ',origin-as-array]'
        self.bounds = {'dims': (T, L, R, C), 'window': '%s=%s' % (dim, kind)}

    def space(self):
        if self._space is None:
            self._wr = common.WarnRec()
            self._space = loader.TwinSpace(stubs={
                'PseudoNetCDF.pncwarn': common.warn_stub(self._wr),
                'datetime': sd.make_module()}, objfloat='all')
            self._space.twin('PseudoNetCDF.cmaqfiles._ioapi')
        return self._space

    def _n(self):
        return {'TSTEP': self.T, 'LAY': self.L, 'ROW': self.R,
                'COL': self.C}[self.dim]

    def _window(self, ctx):
        n = self._n()
        if self.kind == 'int':
            k = ctx.int('k', -n, n - 1)
            return k, None
        a = ctx.int('a', -n, n)
        b = ctx.int('b', -n, n)
        return a, b

    @staticmethod
    def _norm(n, a, b, kind):
        """first index and count (python ints)"""
        if kind == 'int':
            return a % n, 1
        idx = list(range(n))[slice(a, b)]
        return (idx[0] if idx else None), len(idx)

    def sym(self, ctx, h):
        sp = self.space()
        IO = sp.twin('PseudoNetCDF.cmaqfiles._ioapi').ioapi_base
        sd.YEAR_RANGE = (self.year - 1, self.year + 1)
        sd.FORK_YEARS = True
        # the year is enumerated (the calendar algorithms' inverse is too
        # hard for the solver over a free year); day of year, time and
        # window are symbolic
        y, j = _valid_date(ctx, 'd', self.year, self.year)
        y = self.year
        H = ctx.int('t_H', 0, 23)
        M = ctx.int('t_M', 0, 59)
        vals = {'sdate': y * 1000 + j, 'stime': H * 10000 + M * 100,
                'xorig': ctx.real('xorig'), 'yorig': ctx.real('yorig'),
                'xcell': ctx.real('xcell', 1), 'ycell': ctx.real('ycell', 1),
                'attr': self.attr}
        vg = [ctx.real('vg%d' % i) for i in range(self.L + 1)]
        for p, q in zip(vg[:-1], vg[1:]):
            ctx.assume(p.e > q.e, check=False)
        vals['vglvls'] = vg
        import sys
        sys.setprofile(sp.profile())
        try:
            try:
                f = build_ioapi(IO, ctx, self.T, self.L, self.R, self.C,
                                self.tkey, True, vals, self.tflag)
            except Exception as ex:
                h.candidate('build-raised:' + type(ex).__name__,
                            repr(ex)[:200])
                return
            # lemma (also a claim of its own): the source file's time flags
            # are SDATE/STIME + k*TSTEP in calendar arithmetic; proved first
            # and then available to the solver as facts
            tstep, tsec = TSTEPS[self.tkey]
            tf = f.variables['TFLAG'] if self.tflag else None
            for t in range(self.T if self.tflag else 0):
                fy, fj, fhms = _flag(y, j, H, M, t * tsec)
                for lab, lem in (
                        ('lemma:source-TFLAG-date[%d]' % t,
                         symx._b(_I(tf[t, 0, 0]) == fy * 1000 + fj)),
                        ('lemma:source-TFLAG-time[%d]' % t,
                         symx._b(_I(tf[t, 0, 1]) == fhms))):
                    if h.claim(lab, lem) == 'unsat':
                        ctx.assume(lem, check=False)
            a, b = self._window(ctx)
            sel = a if self.kind == 'int' else slice(a, b)
            ca = int(a)
            cb = None if b is None else int(b)
            first, cnt = self._norm(self._n(), ca, cb, self.kind)
            if cnt == 0:
                return      # empty window: outside the property's domain
            try:
                out = f.sliceDimensions(**{self.dim: sel})
            except Exception as ex:
                h.candidate('raised:' + type(ex).__name__, repr(ex)[:200])
                return
        finally:
            sys.setprofile(None)
        self._claims(h.claim, out, vals, first, cnt, y, j, H, M, True, h,
                     src=f)

    def _claims(self, claim, out, vals, first, cnt, y, j, H, M, symbolic,
                h=None, src=None):
        tstep, tsec = TSTEPS[self.tkey]

        def one(x):
            return np.asarray(x, dtype=object).reshape(-1)[0] \
                if isinstance(x, np.ndarray) else x

        def eq(a_, b_):
            a_, b_ = one(a_), one(b_)
            # replay inputs are dyadic rationals: origin + k * cell is exact
            # in float64, so the comparison can be (nearly) exact; a loose
            # relative tolerance would hide an error of one cell next to a
            # large origin
            return common.eq_expr(a_, b_) if symbolic else \
                common.close_expr(a_, b_, 1e-12)
        if src is not None and getattr(self, 'check_source', False):
            # the source file keeps its own referencing (a clause of C05;
            # these obligations are listed by checks/c05.py)
            claim('source-XORIG-unchanged', eq(src.XORIG, vals['xorig']))
            claim('source-YORIG-unchanged', eq(src.YORIG, vals['yorig']))
            sv = list(np.asarray(src.VGLVLS).reshape(-1))
            claim('source-VGLVLS-unchanged', z3.And(
                z3.BoolVal(len(sv) == len(vals['vglvls'])),
                *[eq(g, e) for g, e in zip(sv, vals['vglvls'])]))
            claim('source-dimensions-unchanged', z3.BoolVal(
                dict((k, len(v)) for k, v in src.dimensions.items()
                     if k in ('TSTEP', 'LAY', 'ROW', 'COL')) ==
                {'TSTEP': self.T, 'LAY': self.L, 'ROW': self.R,
                 'COL': self.C}))
        xo = vals['xorig'] + (first * vals['xcell'] if self.dim == 'COL'
                              else 0)
        yo = vals['yorig'] + (first * vals['ycell'] if self.dim == 'ROW'
                              else 0)
        claim('XORIG', eq(out.XORIG, xo))
        claim('YORIG', eq(out.YORIG, yo))
        vg = vals['vglvls']
        if self.dim == 'LAY':
            exp = vg[first:first + cnt + 1]
        else:
            exp = vg
        got = list(np.asarray(out.VGLVLS).reshape(-1))
        claim('VGLVLS-length', z3.BoolVal(len(got) == len(exp)))
        if len(got) == len(exp):
            claim('VGLVLS', z3.And(*[eq(g, e) for g, e in zip(got, exp)]))
        lens = dict((k, len(v)) for k, v in out.dimensions.items())
        want = {'TSTEP': self.T, 'LAY': self.L, 'ROW': self.R, 'COL': self.C}
        want[self.dim] = cnt
        claim('dimension-lengths', z3.BoolVal(all(
            lens.get(k) == v for k, v in want.items())))
        claim('count-attributes', z3.BoolVal(
            out.NLAYS == want['LAY'] and out.NROWS == want['ROW'] and
            out.NCOLS == want['COL']))
        # time referencing
        t0 = first if self.dim == 'TSTEP' else 0
        nt = cnt if self.dim == 'TSTEP' else self.T
        r0 = ref_instant(y, j, H, M, 0) + t0 * tsec * US
        try:
            times = out.getTimes()
        except Exception as ex:
            claim('getTimes-raised', z3.BoolVal(False))
            return
        claim('time-count', z3.BoolVal(len(times) == nt))
        for t in range(min(nt, len(times))):
            if symbolic and times[t]._utc_sec() is not None:
                # whole-second instants: compare in seconds
                claim('time[%d]' % t, symx._b(
                    times[t]._utc_sec() * US == r0 + t * tsec * US))
                continue
            got_us = times[t]._utc() if symbolic else _us(times[t])
            claim('time[%d]' % t, symx._b(got_us == r0 + t * tsec * US)
                  if symbolic else z3.BoolVal(got_us == r0 + t * tsec * US))
        # SDATE/STIME equal the first retained flag
        fy, fj, fhms = _flag(y, j, H, M, t0 * tsec)
        if symbolic:
            claim('SDATE', symx._b(_I(out.SDATE) == fy * 1000 + fj))
            claim('STIME', symx._b(_I(out.STIME) == fhms))
        else:
            claim('SDATE', z3.BoolVal(int(out.SDATE) == fy * 1000 + fj))
            claim('STIME', z3.BoolVal(int(out.STIME) == fhms))
        if nt > 1:
            claim('TSTEP', symx._b(_I(out.TSTEP) == tstep) if symbolic
                  else z3.BoolVal(int(out.TSTEP) == tstep))
        if h is not None:
            h.observe('dims', lens)

    def real(self, inputs):
        import warnings
        with warnings.catch_warnings():
            warnings.simplefilter('ignore')
            from PseudoNetCDF.cmaqfiles._ioapi import ioapi_base as IO
        y, j = _g(inputs, 'd_y', 2000), _g(inputs, 'd_j', 1)
        H, M = _g(inputs, 't_H'), _g(inputs, 't_M')
        fl = lambda k, d=0.0: float(frac_of(inputs.get(k, d)))  # noqa
        vals = {'sdate': y * 1000 + j, 'stime': H * 10000 + M * 100,
                'xorig': fl('xorig'), 'yorig': fl('yorig'),
                'xcell': fl('xcell', 1.0), 'ycell': fl('ycell', 1.0),
                'vglvls': [fl('vg%d' % i, 1.0 - i / 10.)
                           for i in range(self.L + 1)],
                'attr': self.attr}
        viol = {}

        def claim(label, e):
            if not z3.is_true(z3.simplify(e)):
                viol[label] = 'referencing differs (%s)' % label
        a = _g(inputs, 'k') if self.kind == 'int' else _g(inputs, 'a')
        b = None if self.kind == 'int' else _g(inputs, 'b')
        first, cnt = self._norm(self._n(), a, b, self.kind)
        if cnt == 0:
            return {'obs': {}, 'violations': {}}
        try:
            with warnings.catch_warnings():
                warnings.simplefilter('ignore')
                f = build_ioapi(IO, None, self.T, self.L, self.R, self.C,
                                self.tkey, False, vals, self.tflag)
                sel = a if self.kind == 'int' else slice(a, b)
                out = f.sliceDimensions(**{self.dim: sel})
                # float32 storage of VGLVLS: compare against float32 inputs
                vals['vglvls'] = [float(np.float32(v))
                                  for v in vals['vglvls']]
                self._claims(claim, out, vals, first, cnt, y, j, H, M, False,
                             src=f)
        except Exception as ex:
            viol['raised:' + type(ex).__name__] = repr(ex)[:200]
        return {'obs': {}, 'violations': viol,
                'window': (self.dim, a, b), 'start': (y * 1000 + j,
                                                      H * 10000 + M * 100)}


def _I(x):
    if isinstance(x, (symx.SymInt, int)):
        return x
    if hasattr(x, '__symint__'):
        return x.__symint__()
    return int(x)


def _us(t):
    import datetime as _dt
    if t.tzinfo is not None:
        t = t.astimezone(_dt.timezone.utc).replace(tzinfo=None)
    r = t - _dt.datetime(1, 1, 1)
    return (r.days * 86400 + r.seconds) * US + r.microseconds


def _flag(y, j, H, M, addsec):
    """YYYY, JJJ, HHMMSS of (y, j, H:M) + addsec seconds, symbolic or
    concrete, by calendar arithmetic (within +-1 year)"""
    if not any(isinstance(v, symx.Sym) for v in (y, j, H, M)):
        import datetime as _dt
        t = _dt.datetime(y, 1, 1) + _dt.timedelta(
            days=j - 1, hours=H, minutes=M, seconds=addsec)
        return t.year, t.timetuple().tm_yday, \
            t.hour * 10000 + t.minute * 100 + t.second
    tot = H * 3600 + M * 60 + addsec
    dd = tot // 86400
    sec = tot % 86400
    jj = j + dd
    leap = sd.is_leap(y)
    ny = sd._ite(leap, 366, 365)
    over = jj > ny
    fy = sd._ite(over, y + 1, y)
    fj = sd._ite(over, jj - ny, jj)
    hms = (sec // 3600) * 10000 + (sec // 60 % 60) * 100 + sec % 60
    return fy, fj, hms


class SubsetRowCol(Subset):
    """ROW and COL selected together by integers (as Python ints or as numpy
    integer scalars, e.g. the result of an argmax or of ll2ij): both origins
    move, both dimensions stay with length one"""

    def __init__(self, seltype, year=2004):
        Subset.__init__(self, 'ROW', 'int', R=3, C=3, year=year)
        self.seltype = seltype
        self.name = 'subset[ROW=int,COL=int as %s|T2L2R3C3,1h,%d]' % (
            seltype, year)
        self.bounds = {'dims': (2, 2, 3, 3), 'window': 'ROW=k, COL=m'}

    def _sel(self, k):
        return np.int64(int(k)) if self.seltype == 'numpy-int' else k

    def _common(self, f, vals, kr, kc, claim, symbolic):
        out = f.sliceDimensions(ROW=self._sel(kr), COL=self._sel(kc))

        def one(x):
            return np.asarray(x, dtype=object).reshape(-1)[0] \
                if isinstance(x, np.ndarray) else x

        def eq(a_, b_):
            a_, b_ = one(a_), one(b_)
            return common.eq_expr(a_, b_) if symbolic else \
                common.close_expr(a_, b_, 1e-12)
        fr, fc = int(kr) % self.R, int(kc) % self.C
        lens = dict((k, len(v)) for k, v in out.dimensions.items())
        claim('dimension-lengths', z3.BoolVal(
            lens.get('ROW') == 1 and lens.get('COL') == 1 and
            lens.get('TSTEP') == self.T and lens.get('LAY') == self.L))
        claim('XORIG', eq(out.XORIG, vals['xorig'] + fc * vals['xcell']))
        claim('YORIG', eq(out.YORIG, vals['yorig'] + fr * vals['ycell']))

    def sym(self, ctx, h):
        sp = self.space()
        IO = sp.twin('PseudoNetCDF.cmaqfiles._ioapi').ioapi_base
        sd.YEAR_RANGE = (self.year - 1, self.year + 1)
        sd.FORK_YEARS = True
        vals = {'sdate': self.year * 1000 + 100, 'stime': 0,
                'xorig': ctx.real('xorig'), 'yorig': ctx.real('yorig'),
                'xcell': ctx.real('xcell', 1), 'ycell': ctx.real('ycell', 1),
                'attr': 'scalar'}
        vg = [ctx.real('vg%d' % i) for i in range(self.L + 1)]
        for p, q in zip(vg[:-1], vg[1:]):
            ctx.assume(p.e > q.e, check=False)
        vals['vglvls'] = vg
        kr = ctx.int('kr', -self.R, self.R - 1)
        kc = ctx.int('kc', -self.C, self.C - 1)
        import sys
        sys.setprofile(sp.profile())
        try:
            try:
                f = build_ioapi(IO, ctx, self.T, self.L, self.R, self.C,
                                self.tkey, True, vals, True)
                self._common(f, vals, int(kr), int(kc), h.claim, True)
            except Exception as ex:
                h.candidate('raised:' + type(ex).__name__, repr(ex)[:200])
        finally:
            sys.setprofile(None)

    def real(self, inputs):
        import warnings
        with warnings.catch_warnings():
            warnings.simplefilter('ignore')
            from PseudoNetCDF.cmaqfiles._ioapi import ioapi_base as IO
        fl = lambda k, d=0.0: float(frac_of(inputs.get(k, d)))  # noqa
        vals = {'sdate': self.year * 1000 + 100, 'stime': 0,
                'xorig': fl('xorig'), 'yorig': fl('yorig'),
                'xcell': fl('xcell', 1.0), 'ycell': fl('ycell', 1.0),
                'vglvls': [fl('vg%d' % i, 1.0 - i / 10.)
                           for i in range(self.L + 1)], 'attr': 'scalar'}
        viol = {}

        def claim(label, e):
            if not z3.is_true(z3.simplify(e)):
                viol[label] = 'referencing differs (%s)' % label
        kr, kc = _g(inputs, 'kr'), _g(inputs, 'kc')
        try:
            with warnings.catch_warnings():
                warnings.simplefilter('ignore')
                f = build_ioapi(IO, None, self.T, self.L, self.R, self.C,
                                self.tkey, False, vals, True)
                self._common(f, vals, kr, kc, claim, False)
        except Exception as ex:
            viol['raised:' + type(ex).__name__] = repr(ex)[:200]
        return {'obs': {}, 'violations': viol, 'window': (kr, kc)}


def obligations(tier):
    obs = []
    years = (2003, 2004) if tier == 'quick' else (1999, 2000, 2003, 2004)
    for dim in ('COL', 'ROW', 'LAY', 'TSTEP'):
        for kind in ('int', 'slice'):
            if dim == 'TSTEP':
                for tk in (('1h', '24h') if tier == 'quick' else TSTEPS):
                    for yr in years:
                        obs.append(Subset(dim, kind, T=3, tkey=tk, year=yr))
                # file described only by SDATE/STIME/TSTEP (no TFLAG yet)
                obs.append(Subset(dim, kind, T=3, tkey='1h', year=years[-1],
                                  tflag=False))
            else:
                obs.append(Subset(dim, kind, L=3 if dim == 'LAY' else 2,
                                  R=3 if dim == 'ROW' else 2,
                                  C=3 if dim == 'COL' else 2,
                                  year=years[-1]))
                if dim in ('COL', 'ROW'):
                    # grid origin held as a one-element array attribute
                    obs.append(Subset(dim, kind, R=3 if dim == 'ROW' else 2,
                                      C=3 if dim == 'COL' else 2,
                                      year=years[-1], attr='array'))
    for seltype in ('int', 'numpy-int'):
        obs.append(SubsetRowCol(seltype, years[-1]))
    return obs
