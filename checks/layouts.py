"""Reference layouts ("independent codec"): closed forms for the byte layout of
the binary formats, written from the format descriptions (CAMx user's guide,
GEOS-Chem bpch, ARL) and sharing no code with the library.  A layout can answer
"what value does the specification put at byte offset o" for symbolic offsets
(used as the struct-unpack oracle of the symbolic record file) and can write a
real file for replay."""
import struct

import numpy as np
import z3

from verifx import symx


def asc2int(s):
    """CAMx stores each character as a 4-byte big-endian integer of 'c   '"""
    return [struct.unpack('>i', (c + '   ').encode())[0] for c in s]


class Record(object):
    def __init__(self, start, size, fmt, values, kind):
        self.start, self.size, self.fmt = start, size, fmt
        self.values, self.kind = values, kind


class UamivLayout(object):
    """CAMx gridded average/emissions/instant file.

    header:  [name 10c][note 60c] ione nspec ibdate btime iedate etime
             rdum rdum iutm xorg yorg delx dely nx ny nz idum idum rdum rdum rdum
             ione ione nx ny
             (species name 10c) * nspec
    per step: ibdate btime iedate etime
              per species, per layer:  ione (name 10c) (cell nx*ny floats)
    every record is framed by 4-byte big-endian length markers."""

    def __init__(self, nspec, nz, T, cells, nx, ny, date0, time0, step, eod,
                 name='AVERAGE   '):
        self.nspec, self.nz, self.T = nspec, nz, T
        self.cells, self.nx, self.ny = cells, nx, ny
        self.step, self.eod = step, eod
        self.fname = name
        self.spcnames = [('SP%d' % i).ljust(10) for i in range(nspec)]
        # times: begin/end of each step, day roll-over by date+1
        self.times = []
        d, t = date0, time0
        for i in range(T):
            t2 = t + step
            carry = t2 >= eod
            if isinstance(carry, symx.SymBool):
                carry = carry.e
                d2 = symx.SymInt(z3.If(carry, symx._num(d)[1] + 1,
                                       symx._num(d)[1]))
                t2n = symx.SymInt(z3.If(carry, symx._num(t2)[1] - eod,
                                        symx._num(t2)[1]))
            else:
                d2 = d + 1 if carry else d
                t2n = t2 - eod if carry else t2
            self.times.append((d, t, d2, t2n))
            d, t = d2, t2n
        self.P = 4 * (11 + cells) + 8          # padded data record
        self.TH = 16 + 8                       # padded time header
        self.B = self.TH + nspec * nz * self.P  # bytes per step
        self.records = []
        off = 0
        e = self.times[-1]
        hdr = asc2int(name) + asc2int(' ' * 60) + [
            1, nspec, self.times[0][0], self.times[0][1], e[2], e[3]]
        off = self._add(off, 304, '10i60i3ifif', hdr, 'emiss')
        grid = [0., 0., 0, 0., 0., 1000., 1000., nx, ny, nz, 0, 0, 0., 0., 0.]
        off = self._add(off, 60, 'ffiffffiiiiifff', grid, 'grid')
        off = self._add(off, 16, 'iiii', [1, 1, nx, ny], 'cell')
        spc = []
        for sn in self.spcnames:
            spc += asc2int(sn)
        off = self._add(off, 40 * nspec, '10i' * nspec, spc, 'species')
        self.H = off
        self.length = self.H + T * self.B

    def _add(self, off, size, fmt, values, kind):
        self.records.append(Record(off, size, fmt, values, kind))
        return off + size + 8

    def time_record(self, ti):
        return self.H + ti * self.B

    def data_record(self, ti, s, k):
        """s 0-based species, k 1-based layer"""
        return self.H + ti * self.B + self.TH + (s * self.nz + (k - 1)) * \
            self.P

    def all_dynamic(self):
        out = []
        for ti in range(self.T):
            out.append((self.time_record(ti), 16, 'time', ti))
            for s in range(self.nspec):
                for k in range(1, self.nz + 1):
                    out.append((self.data_record(ti, s, k), self.P - 8,
                                'data', (ti, s, k)))
        return out

    # -- real file for replay -------------------------------------------
    def write_real(self, path):
        """encode with struct only; returns data[T, nspec, nz, ny, nx]"""
        nx, ny = int(self.nx), int(self.ny)
        rng = np.random.RandomState(7)
        data = rng.rand(self.T, self.nspec, self.nz, ny, nx).astype('>f4')

        def rec(fmt, vals):
            body = struct.pack('>' + fmt, *vals)
            m = struct.pack('>i', len(body))
            return m + body + m
        with open(path, 'wb') as f:
            for r in self.records:
                f.write(rec(r.fmt, [int(v) if isinstance(v, (int, np.integer))
                                    else v for v in r.values]))
            for ti in range(self.T):
                d, t, d2, t2 = [x for x in self.times[ti]]
                f.write(rec('ifif', [int(d), float(t), int(d2), float(t2)]))
                for s in range(self.nspec):
                    for k in range(self.nz):
                        body = struct.pack('>i', 1) + struct.pack(
                            '>10i', *asc2int(self.spcnames[s])) + \
                            data[ti, s, k].tobytes()
                        m = struct.pack('>i', len(body))
                        f.write(m + body + m)
        return np.asarray(data, dtype='f')


class One3dLayout(object):
    """CAMx generic 3-D meteorological file (vertical diffusivity, humidity,
    ...): no header; per step and per layer one record
        [time f (HHMM)] [date i (YYJJJ)] [cells f]
    framed by 4-byte big-endian length markers."""

    def __init__(self, nz, T, cells, date0, time0, step=100, eod=2400):
        self.nz, self.T, self.cells = nz, T, cells
        self.step, self.eod = step, eod
        self.times = []
        d, t = date0, time0
        for i in range(T):
            self.times.append((d, t))
            t2 = t + step
            carry = t2 >= eod
            if isinstance(carry, symx.SymBool):
                carry = carry.e
                d = symx.SymInt(z3.If(carry, symx._num(d)[1] + 1,
                                      symx._num(d)[1]))
                t = symx.SymInt(z3.If(carry, symx._num(t2)[1] - eod,
                                      symx._num(t2)[1]))
            else:
                d, t = (d + 1, t2 - eod) if carry else (d, t2)
        self.P = 4 * (2 + cells) + 8
        self.B = nz * self.P
        self.H = 0
        self.records = []
        self.length = T * self.B

    def data_record(self, ti, k):
        """k 1-based layer"""
        return ti * self.B + (k - 1) * self.P

    def all_dynamic(self):
        return [(self.data_record(ti, k), self.P - 8, 'one', (ti, k))
                for ti in range(self.T) for k in range(1, self.nz + 1)]

    def write_real(self, path, rows, cols):
        """encode with struct only; returns data[T, nz, rows, cols]"""
        rng = np.random.RandomState(11)
        data = rng.rand(self.T, self.nz, rows, cols).astype('>f4')
        with open(path, 'wb') as f:
            for ti in range(self.T):
                d, t = self.times[ti]
                for k in range(self.nz):
                    body = struct.pack('>fi', float(t), int(d)) + \
                        data[ti, k].tobytes()
                    m = struct.pack('>i', len(body))
                    f.write(m + body + m)
        return np.asarray(data, dtype='f')


class MetLayout(One3dLayout):
    """header-less CAMx met files that interleave several fields: per step a
    fixed sequence of records, each  [time f (HHMM)] [date i] [cells f].
      temperature:      surface temperature, then air temperature per layer
      height_pressure:  per layer height then pressure
    `seq(nz)` lists (variable, layer index or None) per record of a step."""

    KINDS = {
        'one3d': lambda nz: [('UNKNOWN', k) for k in range(nz)],
        'temperature': lambda nz: [('SURFTEMP', None)] + [
            ('AIRTEMP', k) for k in range(nz)],
        'height_pressure': lambda nz: [x for k in range(nz) for x in (
            ('HGHT', k), ('PRES', k))],
    }

    def __init__(self, kind, nz, T, cells, date0, time0, step=100, eod=2400):
        One3dLayout.__init__(self, nz, T, cells, date0, time0, step, eod)
        self.kind = kind
        self.seq = self.KINDS[kind](nz)
        self.B = len(self.seq) * self.P
        self.length = T * self.B

    def all_dynamic(self):
        return [(ti * self.B + ri * self.P, self.P - 8, 'one', (ti, ri))
                for ti in range(self.T) for ri in range(len(self.seq))]

    def write_fields(self, path, rows, cols):
        """encode with struct only; returns {variable: array}"""
        rng = np.random.RandomState(13)
        out = {}
        for var, k in self.seq:
            if var not in out:
                shp = (self.T, rows, cols) if k is None else \
                    (self.T, self.nz, rows, cols)
                out[var] = (rng.rand(*shp) * 300).astype('>f4')
        with open(path, 'wb') as f:
            for ti in range(self.T):
                d, t = self.times[ti]
                for var, k in self.seq:
                    cell = out[var][ti] if k is None else out[var][ti, k]
                    body = struct.pack('>fi', float(t), int(d)) + \
                        cell.tobytes()
                    m = struct.pack('>i', len(body))
                    f.write(m + body + m)
        return dict((k, np.asarray(v, dtype='f')) for k, v in out.items())


class WindLayout(object):
    """CAMx wind file: per step
        [time f (HHMM)] [date i (YYJJJ)] [lstagger i]     (12-byte header;
                                                           8 bytes without
                                                           the stagger flag)
        per layer:  [u: cells f]  [v: cells f]
        [dummy record: `dummy` words]
    every record framed by 4-byte big-endian length markers.  The dummy
    record holds one word in the sample file of the repository and in files
    written by the library (`dummy` = 1)."""

    def __init__(self, nz, T, cells, dummy, date0, time0, stagger=True,
                 step=100, eod=2400):
        self.nz, self.T, self.cells, self.dummy = nz, T, cells, dummy
        self.stagger = stagger
        self.times = []
        d, t = date0, time0
        for i in range(T):
            self.times.append((d, t))
            t2 = t + step
            carry = t2 >= eod
            if isinstance(carry, symx.SymBool):
                carry = carry.e
                d = symx.SymInt(z3.If(carry, symx._num(d)[1] + 1,
                                      symx._num(d)[1]))
                t = symx.SymInt(z3.If(carry, symx._num(t2)[1] - eod,
                                      symx._num(t2)[1]))
            else:
                d, t = (d + 1, t2 - eod) if carry else (d, t2)
        self.HS = (12 if stagger else 8)        # header payload bytes
        self.P = 4 * cells + 8                  # padded data record
        self.D = 4 * dummy + 8                  # padded dummy record
        self.B = self.HS + 8 + 2 * nz * self.P + self.D
        self.H = 0
        self.records = []
        self.length = T * self.B

    def header(self, ti):
        return ti * self.B

    def data_record(self, ti, k, uv):
        """k 0-based layer, uv 0 = u, 1 = v"""
        return ti * self.B + self.HS + 8 + (2 * k + uv) * self.P

    def dummy_record(self, ti):
        return ti * self.B + self.HS + 8 + 2 * self.nz * self.P

    def all_dynamic(self):
        out = []
        for ti in range(self.T):
            out.append((self.header(ti), self.HS, 'one', (ti, None)))
            for k in range(self.nz):
                for uv in (0, 1):
                    out.append((self.data_record(ti, k, uv), self.P - 8,
                                'wdata', (ti, k, uv)))
            out.append((self.dummy_record(ti), self.D - 8, 'wdummy', ti))
        return out

    def write_real(self, path, rows, cols):
        """encode with struct only; returns {'U': ..., 'V': ...}"""
        rng = np.random.RandomState(19)
        uv = (rng.rand(self.T, self.nz, 2, rows, cols) * 20 - 10).astype(
            '>f4')

        def rec(body):
            m = struct.pack('>i', len(body))
            return m + body + m
        with open(path, 'wb') as f:
            for ti in range(self.T):
                d, t = self.times[ti]
                hdr = struct.pack('>fi', float(t), int(d))
                if self.stagger:
                    hdr += struct.pack('>i', 0)
                f.write(rec(hdr))
                for k in range(self.nz):
                    f.write(rec(uv[ti, k, 0].tobytes()))
                    f.write(rec(uv[ti, k, 1].tobytes()))
                f.write(rec(struct.pack('>%df' % int(self.dummy),
                                        *([0.] * int(self.dummy)))))
        a = np.asarray(uv, dtype='f')
        return {'U': a[:, :, 0], 'V': a[:, :, 1]}


class CloudRainLayout(object):
    """CAMx cloud/rain file:
        header record: [description: `desc` characters][nx i][ny i][nz i]
        per step: [time f (HHMM)][date i (YYJJJ)]
                  per layer, per field (5 fields since CAMx 4.3: cloud, rain,
                  snow, graupel, optical depth; 3 before): [cells f]
    every record framed by 4-byte big-endian length markers."""

    def __init__(self, nvars, nz, T, rows, cols, date0, time0, desc=20,
                 step=100, eod=2400):
        self.nvars, self.nz, self.T = nvars, nz, T
        self.rows, self.cols, self.cells = rows, cols, rows * cols
        self.desc = desc
        self.times = []
        d, t = date0, time0
        for i in range(T):
            self.times.append((d, t))
            t2 = t + step
            d, t = (d + 1, t2 - eod) if t2 >= eod else (d, t2)
        self.H = desc + 12 + 8
        self.P = 4 * self.cells + 8
        self.B = 16 + nvars * nz * self.P
        self.length = self.H + T * self.B

    def record_starts(self):
        out = [0]
        for ti in range(self.T):
            b = self.H + ti * self.B
            out.append(b)
            for r in range(self.nvars * self.nz):
                out.append(b + 16 + r * self.P)
        return out + [self.length]

    def write_real(self, path, zero=False):
        """encode with struct only; returns data[T, nz, nvars, rows, cols]"""
        rng = np.random.RandomState(23)
        data = rng.rand(self.T, self.nz, self.nvars, self.rows,
                        self.cols).astype('>f4')
        if zero:
            data[:] = 0

        def rec(body):
            m = struct.pack('>i', len(body))
            return m + body + m
        with open(path, 'wb') as f:
            f.write(rec(b'c' * self.desc + struct.pack(
                '>iii', self.cols, self.rows, self.nz)))
            for ti in range(self.T):
                d, t = self.times[ti]
                f.write(rec(struct.pack('>fi', float(t), int(d))))
                for k in range(self.nz):
                    for v in range(self.nvars):
                        f.write(rec(data[ti, k, v].tobytes()))
        return np.asarray(data, dtype='f')


class LatBndLayout(object):
    """CAMx lateral boundary file (user's guide, "boundary conditions file"):
      1 [name 10c][note 60c] itzon nspec ibdate btime iedate etime
      2 plon plat iutm xorg yorg delx dely nx ny nz iproj istag tlat1 tlat2 rdum
      3 ione ione nx ny
      4 (species name 10c) * nspec
      5-8 per edge (west, east, south, north):
          ione iedge ncell (icell idum idum idum) * ncell
      per step: ibdate btime iedate etime
          per species, per edge: ione (name 10c) iedge ((bc(cell,k),k),cell)
    every record framed by 4-byte big-endian length markers."""

    def __init__(self, nspec, nz, T, nx, ny, date0, time0):
        self.nspec, self.nz, self.T, self.nx, self.ny = nspec, nz, T, nx, ny
        self.spcnames = [('SP%d' % i).ljust(10) for i in range(nspec)]
        self.times = []
        d, t = date0, time0
        for i in range(T):
            t2 = t + 1
            d2, t2n = (d + 1, t2 - 24) if t2 >= 24 else (d, t2)
            self.times.append((d, t, d2, t2n))
            d, t = d2, t2n
        self.edges = [('WEST', ny), ('EAST', ny), ('SOUTH', nx),
                      ('NORTH', nx)]

    def _records(self, data):
        recs = []
        e = self.times[-1]
        recs.append(struct.pack(
            '>10i60iiiifif', *(asc2int('BOUNDARY  ') + asc2int(' ' * 60) + [
                0, self.nspec, self.times[0][0], float(self.times[0][1]),
                e[2], float(e[3])])))
        recs.append(struct.pack('>ffiffffiiiiifff', 0., 0., 0, 0., 0., 1000.,
                                1000., self.nx, self.ny, self.nz, 0, 0, 0.,
                                0., 0.))
        recs.append(struct.pack('>iiii', 1, 1, self.nx, self.ny))
        spc = []
        for sn in self.spcnames:
            spc += asc2int(sn)
        recs.append(struct.pack('>%di' % len(spc), *spc))
        nhead = len(recs)
        for ei, (en, n) in enumerate(self.edges):
            cells = []
            for c in range(n):
                cells += [2 if 0 < c < n - 1 else 0, 0, 0, 0]
            recs.append(struct.pack('>%di' % (3 + 4 * n), 1, ei + 1, n,
                                    *cells))
        self.nstatic = len(recs)
        for ti in range(self.T):
            d, t, d2, t2 = self.times[ti]
            recs.append(struct.pack('>ifif', int(d), float(t), int(d2),
                                    float(t2)))
            for si, sn in enumerate(self.spcnames):
                for ei, (en, n) in enumerate(self.edges):
                    recs.append(struct.pack('>i', 1) + struct.pack(
                        '>10i', *asc2int(sn)) + struct.pack('>i', ei + 1) +
                        data[en][ti, si].astype('>f4').tobytes())
        return recs

    def write_real(self, path):
        """encode with struct only; returns {edge: data[T, nspec, ncell, nz]}
        and the list of record start offsets (plus the file length)"""
        rng = np.random.RandomState(29)
        data = dict((en, rng.rand(self.T, self.nspec, n, self.nz)
                     .astype('f')) for en, n in self.edges)
        starts = []
        off = 0
        with open(path, 'wb') as f:
            for body in self._records(data):
                m = struct.pack('>i', len(body))
                starts.append(off)
                f.write(m + body + m)
                off += len(body) + 8
        self.starts = starts + [off]
        self.H = starts[self.nstatic]
        self.B = (off - self.H) // self.T
        self.length = off
        return data


class SymFile(object):
    """file object with a symbolic position over a reference layout; the
    twin's unpack_from_file asks model_unpack for the values the layout puts
    at the current position"""

    name = 'symbolic-record-file'

    def __init__(self, ctx, layout):
        self.ctx, self.lay = ctx, layout
        self.pos = 0
        self.nfresh = 0
        self.static = dict((r.start, r) for r in layout.records)
        self.dynamic = layout.all_dynamic()

    def seek(self, off, whence=0):
        if whence == 0:
            self.pos = off
        elif whence == 1:
            self.pos = self.pos + off
        else:
            self.pos = self.lay.length + off

    def tell(self):
        return self.pos

    def read(self, n):
        raise IOError('raw read on the symbolic file')

    def _fresh(self, fmtc):
        self.nfresh += 1
        if fmtc in 'fd':
            return symx.SymReal(z3.Real('garbage!%d' % self.nfresh))
        return symx.SymInt(z3.Int('garbage!%d' % self.nfresh))

    eof_raises = False

    def _atleast(self, a, b):
        if isinstance(a, int) and isinstance(b, int):
            return a >= b
        return self.ctx.prove(symx._b(symx._num(a)[1] >= symx._num(b)[1]))[0] \
            == 'unsat'

    def _same(self, a, b):
        e = symx._b(symx._num(a)[1] == symx._num(b)[1]) \
            if not (isinstance(a, int) and isinstance(b, int)) \
            else z3.BoolVal(a == b)
        return self.ctx.prove(e)[0] == 'unsat'

    def model_unpack(self, fmt):
        f = fmt.lstrip('<>=!@')
        size = struct.calcsize('>' + f)
        pos = self.pos
        out = None
        if self.eof_raises and self._atleast(pos, self.lay.length):
            raise struct.error('unpack requires a buffer of %d bytes' % size)
        # static header records (concrete offsets)
        cands = [(r.start, r.size, r.kind, r) for r in self.lay.records] + \
            list(self.dynamic)
        # one model of the path narrows the candidates to those whose start
        # (or start + 4) coincides with the position in that model; equality
        # is then proved for these only
        if not isinstance(pos, int) and len(cands) > 3:
            m = self.ctx.model()
            if m is not None:
                def val(x):
                    if isinstance(x, int):
                        return x
                    v = m.eval(symx._num(x)[1], model_completion=True)
                    return v.as_long() if z3.is_int_value(v) else None
                pv = val(pos)
                if pv is not None:
                    cands = [c for c in cands
                             if val(c[0]) in (pv, pv - 4) or
                             val(c[0] + 4 + c[1]) == pv]
        for start, rsize, kind, ref in cands:
            if f == 'i' and self._same(pos, start):
                out = (rsize,)
                break
            if f == 'i' and self._same(pos, start + 4 + rsize):
                out = (rsize,)          # trailing marker
                break
            if self._same(pos, start + 4):
                if kind in ('emiss', 'grid', 'cell', 'species'):
                    vals = ref.values
                    n = len(struct.unpack('>' + f, b'\0' * size))
                    out = tuple(vals[:n])
                elif kind == 'time':
                    out = tuple(self.lay.times[ref])[:len(
                        struct.unpack('>' + f, b'\0' * size))]
                elif kind == 'one':
                    d, t = self.lay.times[ref[0]]
                    out = (t, d, 0)[:len(struct.unpack('>' + f,
                                                       b'\0' * size))]
                else:
                    out = None
                break
        if out is None:
            n = struct.unpack('>' + f, b'\0' * size)
            codes = [c for c in _expand(f)]
            out = tuple(self._fresh(c) for c in codes)
        self.pos = pos + size
        return out


def _expand(f):
    out = []
    num = ''
    for ch in f:
        if ch.isdigit():
            num += ch
        else:
            out += [ch] * (int(num) if num else 1)
            num = ''
    return out
