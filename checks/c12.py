"""C12 -- decoded times are the true instants for every supported encoding.

Encoded: PseudoNetCDFFile.getTimes (TFLAG branch, SDATE/STIME/TSTEP branch,
365/366-day calendar branch, standard-calendar branch) with coordutil.
_parse_ref_date, on symbolic dates/offsets; datetime/timedelta are the
symdatetime model (CPython's ordinal algorithms over z3 integers, validated
differentially against the C implementation by tools/validate_symdatetime)."""
import datetime as _dt
import fractions

import numpy as np
import z3

from verifx import symx, loader, symdatetime as sd
from verifx.harness import Obligation
from verifx.symx import frac_of
from . import common

PROPERTY = 'C12'
OBLIGATION_WALL_S = {'quick': 600, 'thorough': 7200}
LEVEL = 'model_checking'
ASSUMPTIONS = [
    'datetime/timedelta = symdatetime (integer microseconds; civil<->ordinal '
    'by CPython\'s algorithms); timedelta(unit=float) rounds the exact value '
    'half-even to 1 us; the float64 intermediate error of the library\'s '
    'day-fraction arithmetic is not modelled (floats as reals)',
    "'%07d %06d+0000' % (...) then strptime and '%06d' % TSTEP then digit "
    'slices are modelled as printf %0Nd of non-negative integers',
    'years 1900..2100; T <= 2 time values per file (quick)',
    'reference for 365/366-day calendars: independent CF-time model written '
    'in the harness (fixed-length years, month table without/with Feb 29); '
    'offsets within +-3 years of the reference (quick)',
    'netCDF4.date2num / cftime (C extensions): the "convert back" clause is '
    'not claimed',
]

MANIFEST = {
    'category': 'model_checking',
    'technique': 'symbolic execution of the real getTimes source on z3 '
                 'integers/reals with a symbolic datetime model; SMT validity '
                 'of "decoded instant == calendar arithmetic"; replay on the '
                 'unpatched library with the C datetime',
    'text': 'Bounded symbolic checking: for ALL valid IOAPI dates YYYYJJJ '
            '(1900-2100, leap days, year ends), times HHMMSS and steps, the '
            'TFLAG branch and the SDATE/STIME/TSTEP branch of getTimes (with '
            'and without bounds) return the instants given by calendar '
            'arithmetic; for CF "units since reference" variables in '
            'standard calendars every unit and integer/half-integer offset '
            'decodes to reference + offset; for 365/366-day calendars the '
            'result is compared with an independent CF-time model.'
            ' Also: the CF time coordinate synthesised from IOAPI flags (conventions.ioapi add_time_variable) equals the flags\' instants in seconds since 1970, years 1900-2200.',
    'note': 'Trusted: z3, symdatetime (differentially validated against '
            'CPython), printf %0Nd model. cftime/date2num not encoded.',
}

US = 10 ** 6


def ref_instant(y, j, H, M, S):
    """calendar arithmetic on YYYYJJJ / HHMMSS: microseconds since
    0001-01-01 (written independently of symdatetime's classes)"""
    y1 = y - 1
    days = y1 * 365 + y1 // 4 - y1 // 100 + y1 // 400 + (j - 1)
    return days * 86400 * US + (H * 3600 + M * 60 + S) * US


def _valid_date(ctx, name, ylo=1900, yhi=2100):
    y = ctx.int(name + '_y', ylo, yhi)
    j = ctx.int(name + '_j', 1, 366)
    leap = z3.And(y.e % 4 == 0, z3.Or(y.e % 100 != 0, y.e % 400 == 0))
    ctx.assume(z3.Or(j.e <= 365, leap), check=False)
    return y, j


def _valid_time(ctx, name):
    H = ctx.int(name + '_H', 0, 23)
    M = ctx.int(name + '_M', 0, 59)
    S = ctx.int(name + '_S', 0, 59)
    return H, M, S


def _g(inputs, k, d=0):
    return int(frac_of(inputs.get(k, d)))


class _Base(Obligation):
    mode = 'int/real'
    validate_paths = 8
    max_paths = 600
    timeout_ms = 60000
    stubs = ('datetime (symdatetime)', 'printf %0Nd (SymText)')
    _space = None

    def space(self):
        if self._space is None:
            self._wr = common.WarnRec()
            self._space = loader.TwinSpace(stubs={
                'PseudoNetCDF.pncwarn': common.warn_stub(self._wr),
                'datetime': sd.make_module()})
            self._space.twin('PseudoNetCDF.core._files')
        return self._space

    def _profile(self, fn, *a, **k):
        import sys
        sys.setprofile(self._space.profile())
        try:
            return fn(*a, **k)
        finally:
            sys.setprofile(None)

    @staticmethod
    def _us(t):
        """real datetime -> us since 0001-01-01 (UTC)"""
        if t.tzinfo is not None:
            t = t.astimezone(_dt.timezone.utc).replace(tzinfo=None)
        r = t - _dt.datetime(1, 1, 1)
        return (r.days * 86400 + r.seconds) * US + r.microseconds


class Tflag(_Base):
    def __init__(self, T, bounds):
        self.T, self.b = T, bounds
        self.name = 'getTimes-TFLAG[T=%d,bounds=%s]' % (T, bounds)
        self.bounds = {'T': T, 'years': '1900..2100'}

    def _build(self, F, flags, tstep, symbolic):
        f = F()
        f.createDimension('TSTEP', self.T)
        f.createDimension('VAR', 1)
        f.createDimension('DATE-TIME', 2)
        v = f.createVariable('TFLAG', 'O' if symbolic else 'i',
                             ('TSTEP', 'VAR', 'DATE-TIME'))
        for t, (d, hms) in enumerate(flags):
            v[t, 0, 0] = d
            v[t, 0, 1] = hms
        if tstep is not None:
            f.TSTEP = tstep
        return f

    def sym(self, ctx, h):
        sp = self.space()
        F = sp.twin('PseudoNetCDF.core._files').PseudoNetCDFFile
        flags, refs = [], []
        for t in range(self.T):
            y, j = _valid_date(ctx, 'd%d' % t)
            H, M, S = _valid_time(ctx, 't%d' % t)
            flags.append((y * 1000 + j, H * 10000 + M * 100 + S))
            refs.append(ref_instant(y, j, H, M, S))
        tH = ctx.int('ts_H', 0, 300)
        tM = ctx.int('ts_M', 0, 59)
        tS = ctx.int('ts_S', 0, 59)
        tstep = tH * 10000 + tM * 100 + tS
        f = self._build(F, flags, tstep, True)
        try:
            out = self._profile(f.getTimes, bounds=self.b)
        except Exception as ex:
            h.candidate('raised:' + type(ex).__name__, repr(ex)[:200])
            return
        h.claim('count', z3.BoolVal(len(out) == self.T + (1 if self.b else 0)))
        for t in range(self.T):
            h.claim('instant[%d]' % t, symx._b(out[t]._utc() == refs[t]))
        if self.b and len(out) == self.T + 1:
            # the last decoded instant is claimed above; the closing bound
            # must lie one TSTEP after it
            h.claim('last-bound', symx._b(
                out[-1]._utc() - out[-2]._utc() ==
                (tH * 3600 + tM * 60 + tS) * US))
        h.observe('us', [o._utc() for o in out])

    def real(self, inputs):
        import warnings
        RF = common.real_files()
        flags, refs = [], []
        for t in range(self.T):
            y, j = _g(inputs, 'd%d_y' % t, 2000), _g(inputs, 'd%d_j' % t, 1)
            H, M, S = (_g(inputs, 't%d_%s' % (t, c)) for c in 'HMS')
            flags.append((y * 1000 + j, H * 10000 + M * 100 + S))
            refs.append(ref_instant(y, j, H, M, S))
        tH, tM, tS = (_g(inputs, 'ts_' + c) for c in 'HMS')
        f = self._build(RF.PseudoNetCDFFile, flags,
                        tH * 10000 + tM * 100 + tS, False)
        viol = {}
        try:
            with warnings.catch_warnings():
                warnings.simplefilter('ignore')
                out = f.getTimes(bounds=self.b)
        except Exception as ex:
            viol['raised:' + type(ex).__name__] = repr(ex)[:200]
            return {'obs': {}, 'violations': viol}
        us = [self._us(o) for o in out]
        for t in range(self.T):
            if us[t] != refs[t]:
                viol['instant[%d]' % t] = 'flag %r decoded to %s' % (
                    flags[t], out[t])
        if self.b and us[-1] != refs[-1] + (tH * 3600 + tM * 60 + tS) * US:
            viol['last-bound'] = 'TSTEP %d: last bound %s' % (
                tH * 10000 + tM * 100 + tS, out[-1])
        return {'obs': {'us': us}, 'violations': viol}


class Sdate(_Base):
    def __init__(self, T, bounds):
        self.T, self.b = T, bounds
        self.name = 'getTimes-SDATE[T=%d,bounds=%s]' % (T, bounds)
        self.bounds = {'T': T, 'years': '1900..2100', 'TSTEP hours': '0..9999'}

    def _build(self, F, sdate, stime, tstep):
        f = F()
        f.createDimension('TSTEP', self.T)
        f.SDATE, f.STIME, f.TSTEP = sdate, stime, tstep
        return f

    def sym(self, ctx, h):
        sp = self.space()
        F = sp.twin('PseudoNetCDF.core._files').PseudoNetCDFFile
        y, j = _valid_date(ctx, 'd')
        H, M, S = _valid_time(ctx, 't')
        tH = ctx.int('ts_H', 0, 9999)
        tM = ctx.int('ts_M', 0, 59)
        tS = ctx.int('ts_S', 0, 59)
        f = self._build(F, y * 1000 + j, H * 10000 + M * 100 + S,
                        tH * 10000 + tM * 100 + tS)
        try:
            out = self._profile(f.getTimes, bounds=self.b)
        except Exception as ex:
            h.candidate('raised:' + type(ex).__name__, repr(ex)[:200])
            return
        n = self.T + (1 if self.b else 0)
        h.claim('count', z3.BoolVal(len(out) == n))
        r0 = ref_instant(y, j, H, M, S)
        step = (tH * 3600 + tM * 60 + tS) * US
        for t in range(min(n, len(out))):
            if t == 0:
                h.claim('instant[0]', symx._b(out[0]._utc() == r0))
            else:
                # first instant claimed above; the rest by differences
                h.claim('instant[%d]' % t, symx._b(
                    out[t]._utc() - out[t - 1]._utc() == step))
        h.observe('us', [o._utc() for o in out])

    def real(self, inputs):
        import warnings
        RF = common.real_files()
        y, j = _g(inputs, 'd_y', 2000), _g(inputs, 'd_j', 1)
        H, M, S = (_g(inputs, 't_' + c) for c in 'HMS')
        tH, tM, tS = (_g(inputs, 'ts_' + c) for c in 'HMS')
        f = self._build(RF.PseudoNetCDFFile, y * 1000 + j,
                        H * 10000 + M * 100 + S, tH * 10000 + tM * 100 + tS)
        viol = {}
        try:
            with warnings.catch_warnings():
                warnings.simplefilter('ignore')
                out = f.getTimes(bounds=self.b)
        except Exception as ex:
            viol['raised:' + type(ex).__name__] = repr(ex)[:200]
            return {'obs': {}, 'violations': viol}
        us = [self._us(o) for o in out]
        r0 = ref_instant(y, j, H, M, S)
        step = (tH * 3600 + tM * 60 + tS) * US
        for t in range(len(us)):
            if us[t] != r0 + step * t:
                viol['instant[%d]' % t] = \
                    'SDATE %d STIME %d TSTEP %d: step %d decoded to %s' % (
                        y * 1000 + j, H * 10000 + M * 100 + S,
                        tH * 10000 + tM * 100 + tS, t, out[t])
        return {'obs': {'us': us}, 'violations': viol}


UNITS = {'days': 86400 * US, 'hours': 3600 * US, 'minutes': 60 * US,
         'seconds': US}
REFS = ['2000-01-01 00:00:00', '1999-12-31 18:00:00', '1900-03-01',
        '2004-02-29 00:00:00 UTC', '2000-01-01 18:00:00-06:00',
        '2010-07-01 05:30:00+0530']


class CFTime(_Base):
    """time variable with 'units since reference'"""
    SPAN_YEARS = 3
    max_paths = 3000

    def __init__(self, unit, ref, calendar, halves=False, nvals=2,
                 yoff=None):
        self.nv = nvals
        self.yoff = yoff
        self.unit, self.ref, self.cal, self.halves = unit, ref, calendar, \
            halves
        self.name = 'getTimes-CF[%s since %s,%s,halves=%s%s]' % (
            unit, ref, calendar, halves,
            '' if yoff is None else ',year%+d' % yoff)
        self.bounds = {'T': 2, 'offsets': 'integers (or half-integers) in '
                       '[-80000, 80000] units (capped at ~200 years)'}

    def _build(self, F, vals, symbolic):
        f = F()
        f.createDimension('time', len(vals))
        v = f.createVariable('time', 'O' if symbolic else 'd', ('time',))
        v.units = '%s since %s' % (self.unit, self.ref)
        v.calendar = self.cal
        for i, x in enumerate(vals):
            v[i] = x
        return f

    def _refdt(self):
        base = self.ref.replace(' UTC', '')
        for fmt in ('%Y-%m-%d %H:%M:%S%z', '%Y-%m-%d %H:%M:%S',
                    '%Y-%m-%d'):
            try:
                return _dt.datetime.strptime(base, fmt)
            except ValueError:
                pass
        raise ValueError(self.ref)

    def _expected(self, n2):
        """n2 = offset in half units (int or SymInt): expected us since
        0001-01-01 (standard calendar) or None"""
        r = self._refdt()
        base = self._us(r)
        if self.cal in ('standard', 'gregorian', 'proleptic_gregorian'):
            return base + n2 * (UNITS[self.unit] // 2)
        return None

    def _noleap_expected(self, n2):
        """independent CF 365/366-day model: (year, month, day, us of day)
        as z3/int expressions"""
        r = self._refdt()
        ylen = 365 if self.cal in ('noleap', '365_day') else 366
        dbm = [0, 31, 59, 90, 120, 151, 181, 212, 243, 273, 304, 334] \
            if ylen == 365 else \
            [0, 31, 60, 91, 121, 152, 182, 213, 244, 274, 305, 335]
        doy0 = dbm[r.month - 1] + r.day - 1
        us0 = ((r.hour * 60 + r.minute) * 60 + r.second) * US
        tot = (r.year * ylen + doy0) * 86400 * US + us0 + \
            n2 * (UNITS[self.unit] // 2)
        day = tot // (86400 * US)
        usd = tot % (86400 * US)
        year = day // ylen
        doy = day % ylen
        return year, doy, usd, dbm

    def sym(self, ctx, h):
        sp = self.space()
        F = sp.twin('PseudoNetCDF.core._files').PseudoNetCDFFile
        cap = min(80000, 200 * 365 * 86400 * US // UNITS[self.unit])
        if self._expected(0) is None:
            # fixed-length-year calendars: the decoded year and month are
            # case-split below, keep the span to a few years
            cap = min(cap, self.SPAN_YEARS * 366 * 86400 * US //
                      UNITS[self.unit])
        n2s, vals = [], []
        for i in range(self.nv):
            if self.yoff is not None:
                ylen = 365 if self.cal in ('noleap', '365_day') else 366
                Y = ylen * 86400 * US // UNITS[self.unit]
                n = ctx.int('n%d' % i, self.yoff * Y, (self.yoff + 1) * Y - 1)
            else:
                n = ctx.int('n%d' % i, -cap, cap)
            if self.halves:
                n2s.append(n)
                vals.append(symx.SymReal(z3.ToReal(n.e) / 2))
            else:
                n2s.append(n * 2)
                vals.append(n)
        f = self._build(F, vals, True)
        try:
            out = self._profile(f.getTimes)
        except Exception as ex:
            h.candidate('raised:' + type(ex).__name__, repr(ex)[:200])
            return
        h.claim('count', z3.BoolVal(len(out) == self.nv))
        for i in range(min(self.nv, len(out))):
            exp = self._expected(n2s[i])
            if exp is not None:
                h.claim('instant[%d]' % i, symx._b(out[i]._utc() == exp))
            else:
                year, doy, usd, dbm = self._noleap_expected(n2s[i])
                o = out[i]
                # case split on the decoded year and month (solver-driven):
                # with them concrete the remaining claims are linear
                yc = int(o.year)
                mc = int(o.month)
                ye, de = symx._num(year)[1], symx._num(doy)[1]
                m = z3.IntVal(1)
                st = z3.IntVal(0)
                for k in range(1, 12):
                    c = de >= dbm[k]
                    m = z3.If(c, k + 1, m)
                    st = z3.If(c, dbm[k], st)
                dd = de - st + 1
                isfeb29 = z3.And(m == 2, dd == 29)
                # Feb 29 of the 366-day calendar has no image in a real
                # non-leap year: no claim there
                h.claim('date[%d]' % i, z3.Or(isfeb29, z3.And(
                    ye == yc, m == mc)))
                real_ord = sd.ymd2ord(yc, mc, 1)       # concrete
                exp_us = (real_ord - 1 + (dd - 1)) * (86400 * US) + \
                    symx._num(usd)[1]
                h.claim('instant[%d]' % i, z3.Or(
                    isfeb29, symx._num(o.us)[1] == exp_us))
        h.observe('us', [o._utc() for o in out])

    def real(self, inputs):
        import warnings
        RF = common.real_files()
        ns = [_g(inputs, 'n%d' % i) for i in range(self.nv)]
        vals = [n / 2.0 if self.halves else float(n) for n in ns]
        n2s = [n if self.halves else 2 * n for n in ns]
        f = self._build(RF.PseudoNetCDFFile, vals, False)
        viol = {}
        try:
            with warnings.catch_warnings():
                warnings.simplefilter('ignore')
                out = f.getTimes()
        except Exception as ex:
            viol['raised:' + type(ex).__name__] = repr(ex)[:200]
            return {'obs': {}, 'violations': viol}
        us = [self._us(o) for o in out]
        for i in range(self.nv):
            exp = self._expected(n2s[i])
            if exp is not None:
                if us[i] != exp:
                    viol['instant[%d]' % i] = '%r %s since %s decoded to ' \
                        '%s' % (vals[i], self.unit, self.ref, out[i])
            else:
                year, doy, usd, dbm = self._noleap_expected(n2s[i])
                k = max(q for q in range(12) if doy >= dbm[q])
                m, dd = k + 1, doy - dbm[k] + 1
                if m == 2 and dd == 29:
                    continue
                o = out[i]
                if (o.year, o.month, o.day) != (year, m, dd):
                    viol['date[%d]' % i] = \
                        '%r %s since %s (%s) decoded to %s, CF model gives ' \
                        '%04d-%02d-%02d' % (vals[i], self.unit, self.ref,
                                            self.cal, o, year, m, dd)
                tod = ((o.hour * 60 + o.minute) * 60 + o.second) * US + \
                    o.microsecond
                if tod != usd:
                    viol['time-of-day[%d]' % i] = \
                        '%r %s since %s (%s) decoded to %s, expected time ' \
                        'of day %d us' % (vals[i], self.unit, self.ref,
                                          self.cal, o, usd)
        return {'obs': {'us': us}, 'violations': viol}



class CFTimeInt32(CFTime):
    """time coordinate stored as 32-bit integers with large offsets (hours
    since 1900 in the 2000s): the decoding must not be done in that type"""

    def __init__(self, unit='hours', ref='1900-01-01 00:00:00'):
        CFTime.__init__(self, unit, ref, 'standard', False, 1)
        self.name = 'getTimes-CF[%s since %s,int32 storage,large offsets]' \
            % (unit, ref)
        self.bounds = {'T': 1, 'offsets': 'integers in [900000, 1100000] '
                       'units, stored as int32'}

    def _build(self, F, vals, symbolic):
        f = F()
        f.createDimension('time', len(vals))
        v = f.createVariable('time', 'O' if symbolic else 'i', ('time',))
        v.units = '%s since %s' % (self.unit, self.ref)
        v.calendar = self.cal
        for i, x in enumerate(vals):
            v[i] = x
        if symbolic:
            v._as_dtype = np.dtype('i4')
        return f

    def sym(self, ctx, h):
        from verifx import shim
        sp = self.space()
        F = sp.twin('PseudoNetCDF.core._files').PseudoNetCDFFile
        n = ctx.int('n0', 900000, 1100000)
        f = self._build(F, [n], True)
        shim.NARROW_INT_WRAP = True
        try:
            try:
                out = self._profile(f.getTimes)
            except Exception as ex:
                h.candidate('raised:' + type(ex).__name__, repr(ex)[:200])
                return
        finally:
            shim.NARROW_INT_WRAP = False
        h.claim('count', z3.BoolVal(len(out) == 1))
        if len(out) == 1:
            h.claim('instant[0]',
                    symx._b(out[0]._utc() == self._expected(n * 2)))
        h.observe('us', [o._utc() for o in out])

    def real(self, inputs):
        import warnings
        RF = common.real_files()
        n = _g(inputs, 'n0', 1000000)
        f = self._build(RF.PseudoNetCDFFile, [n], False)
        viol = {}
        try:
            with warnings.catch_warnings():
                warnings.simplefilter('ignore')
                out = f.getTimes()
        except Exception as ex:
            viol['raised:' + type(ex).__name__] = repr(ex)[:200]
            return {'obs': {}, 'violations': viol}
        us = [self._us(o) for o in out]
        if us[0] != self._expected(2 * n):
            viol['instant[0]'] = '%r %s since %s decoded to %s' % (
                n, self.unit, self.ref, out[0])
        return {'obs': {'us': us}, 'violations': viol}

class SynthTime(Tflag):
    """conventions.ioapi add_time_variable: the CF time coordinate synthesised
    from an IOAPI file's flags decodes (seconds since 1970-01-01 UTC) to the
    instants of the flags"""

    def __init__(self, T):
        Tflag.__init__(self, T, False)
        self.name = 'synthesised-time[T=%d]' % T
        self.bounds = {'T': T, 'years': '1900..2200'}

    EPOCH = None

    def sym(self, ctx, h):
        sp = self.space()
        F = sp.twin('PseudoNetCDF.core._files').PseudoNetCDFFile
        conv = sp.twin('PseudoNetCDF.conventions.ioapi._ioapi')
        flags, refs = [], []
        for t in range(self.T):
            y, j = _valid_date(ctx, 'd%d' % t, 1900, 2200)
            H, M, S = _valid_time(ctx, 't%d' % t)
            flags.append((y * 1000 + j, H * 10000 + M * 100 + S))
            refs.append(ref_instant(y, j, H, M, S))
        f = self._build(F, flags, 10000, True)
        f.SDATE, f.STIME = flags[0]
        try:
            self._profile(conv.add_time_variable, f, 'time')
            tv = f.variables['time']
            vals = [tv[t] for t in range(self.T)]
            units = str(tv.units)
        except Exception as ex:
            h.candidate('raised:' + type(ex).__name__, repr(ex)[:200])
            return
        h.claim('units', z3.BoolVal(units.startswith(
            'seconds since 1970-01-01 00:00:00')))
        epoch = ref_instant(1970, 1, 0, 0, 0)
        for t in range(self.T):
            h.claim('instant[%d]' % t, common.eq_expr(
                vals[t] * US, refs[t] - epoch))
        h.observe('seconds', vals)

    def real(self, inputs):
        import warnings
        RF = common.real_files()
        from PseudoNetCDF.conventions.ioapi._ioapi import add_time_variable
        flags, refs = [], []
        for t in range(self.T):
            y, j = _g(inputs, 'd%d_y' % t, 2000), _g(inputs, 'd%d_j' % t, 1)
            H, M, S = (_g(inputs, 't%d_%s' % (t, c)) for c in 'HMS')
            flags.append((y * 1000 + j, H * 10000 + M * 100 + S))
            refs.append(ref_instant(y, j, H, M, S))
        f = self._build(RF.PseudoNetCDFFile, flags, 10000, False)
        f.SDATE, f.STIME = flags[0]
        viol = {}
        try:
            with warnings.catch_warnings():
                warnings.simplefilter('ignore')
                add_time_variable(f, 'time')
                vals = [float(x) for x in f.variables['time'][:]]
        except Exception as ex:
            viol['raised:' + type(ex).__name__] = repr(ex)[:200]
            return {'obs': {}, 'violations': viol}
        epoch = ref_instant(1970, 1, 0, 0, 0)
        for t in range(self.T):
            if vals[t] * US != refs[t] - epoch:
                viol['instant[%d]' % t] = 'flag %r synthesised as %r s' % (
                    flags[t], vals[t])
        return {'obs': {'seconds': vals}, 'violations': viol}


def obligations(tier):
    obs = []
    for T in ((1,) if tier == 'quick' else (1, 2)):
        obs.append(SynthTime(T))
    Ts = (1, 2) if tier == 'quick' else (1, 2, 3, 4)
    for T in Ts:
        for b in (False, True):
            obs.append(Tflag(T, b))
            obs.append(Sdate(T, b))
    for unit in UNITS:
        for ref in ((REFS[:2] + REFS[4:5]) if tier == 'quick' else REFS):
            for cal in ('standard', 'proleptic_gregorian'):
                obs.append(CFTime(unit, ref, cal, False))
            obs.append(CFTime(unit, ref, 'gregorian', True))
    for unit in UNITS:
        for cal in ('noleap', '365_day', 'all_leap', '366_day'):
            if tier == 'quick' and cal in ('365_day', '366_day'):
                continue
            for ref in (REFS[0], REFS[2]):
                if tier == 'quick':
                    if unit in ('minutes', 'seconds'):
                        continue   # thorough tier (minutes of solver time)
                    for yo in (-1, 0, 1):
                        obs.append(CFTime(unit, ref, cal, False, 1, yo))
                else:
                    for yo in (-3, -2, -1, 0, 1, 2):
                        obs.append(CFTime(unit, ref, cal, False, 1, yo))
    obs.append(CFTimeInt32())
    if tier == 'thorough':
        obs.append(CFTimeInt32('minutes', '1990-01-01 00:00:00'))
    return obs
