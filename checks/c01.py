"""C01 -- every operation yields a structurally well-formed file.

One step (and two chained steps) from a catalogue of well-formed files: the
operation's in-domain arguments are symbolic, the data are symbolic, dimension
lengths are enumerated (numpy allocates concrete shapes)."""
import itertools

import numpy as np
import z3

from verifx import symx
from verifx.harness import Obligation
from . import common, ops
from .common import FileSpec, VarSpec

PROPERTY = 'C01'
LEVEL = 'model_checking'
ASSUMPTIONS = [
    'files are drawn from a catalogue of four well-formed structures (ranks '
    '0-4, a length-1 dimension, an unlimited dimension, masked/coordinate/'
    'scalar variables); dimension lengths and data values are concrete '
    '(numpy allocates concrete shapes; structure does not depend on data), '
    'operation arguments are symbolic',
    'sequences: all single operations and ordered pairs of operations (the '
    'second applied to the result of the first, with its own symbolic '
    'arguments); longer sequences follow only by induction over structures '
    'inside the catalogue',
    'documented domain as in DESIGN 5.0; an exception in domain is a '
    'violation candidate confirmed by replay',
    'readers as sources of files, getMap/plot/xarray, netCDF-backed files '
    'are outside',
]

MANIFEST = {
    'category': 'model_checking',
    'technique': 'symbolic execution of the real transformation methods on '
                 'numpy object arrays with symbolic in-domain arguments; '
                 'well-formedness predicate evaluated on every feasible path; '
                 'replay on the unpatched library',
    'text': 'Bounded symbolic checking: for every operation of the catalogue '
            '(copy, slice by int/slice/list/points, apply reducers/callables, '
            'stack, subset, rename variable/dimension, insert/remove/reorder '
            'dimension, mask, eval, arithmetic, interpolate, and the '
            'functional forms) and every ordered pair of operations, over all '
            'symbolic in-domain arguments, the result is well-formed '
            '(dimension names exist, shapes equal dimension lengths, '
            'unlimited flags of surviving dimensions kept, attributes '
            'retrievable) and the call completes.'
            ' Also: boolean-mask selections, mask(where=), and ioapi_base.from_arrays with and without a supplied TFLAG (TSTEP unlimited in the constructed file and in a window of it).',
    'note': 'Trusted: z3, numpy shape/indexing semantics (real numpy), the '
            'well-formedness predicate written in the harness. Structural '
            'bound: 3 file structures, pairs of operations.',
}


class PrefixCtx(object):
    def __init__(self, ctx, p):
        self._c, self._p = ctx, p

    def int(self, name, lo=None, hi=None):
        return self._c.int(self._p + name, lo, hi)

    def real(self, name, lo=None, hi=None):
        return self._c.real(self._p + name, lo, hi)


def spec_of(f, label='mid'):
    dims = [(k, len(v), bool(v.isunlimited())) for k, v in
            f.dimensions.items()]
    vs = []
    for k, v in f.variables.items():
        vs.append(VarSpec(k, tuple(v.dimensions)))
    return FileSpec(dims, vs, label=label)


def _sub(inputs, p):
    return dict((k[len(p):], v) for k, v in inputs.items() if k.startswith(p))


class WF(common.SpaceMixin, Obligation):
    mode = 'real'
    validate_paths = 5
    max_paths = 1500
    twin_modules = ('PseudoNetCDF.core._files', 'PseudoNetCDF.core._functions')

    def __init__(self, specname, op1, op2=None):
        self.specname = specname
        self.spec = ops.SPECS[specname]()
        self.op1, self.op2 = op1, op2
        self.name = 'wf[%s|%s%s]' % (specname, op1.name,
                                     '>' + op2.name if op2 else '')
        self.bounds = {'structure': specname,
                       'ops': [op1.name] + ([op2.name] if op2 else [])}

    def _files(self, F, vals1, vals2, symbolic):
        f = common.build(F, self.spec, vals1, symbolic)
        f2 = common.build(F, self.spec, vals2, symbolic) \
            if vals2 is not None else None
        return f, f2

    def _judge(self, step, out, surv, unl, claim, obs, renamed=None):
        probs = common.wf_problems(out)
        claim('%s:well-formed' % step, z3.BoolVal(not probs))
        bad = []
        for d in surv:
            if d in out.dimensions and \
                    bool(out.dimensions[d].isunlimited()) != bool(unl[d]):
                bad.append(d)
        for new, old in (renamed or {}).items():
            if new not in out.dimensions or \
                    bool(out.dimensions[new].isunlimited()) != bool(unl[old]):
                bad.append(new)
        claim('%s:unlimited-kept' % step, z3.BoolVal(not bad))
        obs[step + ':dims'] = dict((k, len(v))
                                   for k, v in out.dimensions.items())
        obs[step + ':vars'] = dict((k, list(v.shape))
                                   for k, v in out.variables.items())
        obs[step + ':problems'] = probs[:3]

    def _go(self, F, fn, symbolic, vals1, vals2, a1, mk_a2, claim, cand, obs):
        env = ops.Env(F, fn, symbolic)
        f, f2 = self._files(F, vals1, vals2, symbolic)
        unl = dict((d[0], d[2]) for d in self.spec.dims)
        try:
            out = self.op1.run(f, f2, a1, env)
        except Exception as ex:
            cand('step1:in-domain-call-raised:' + type(ex).__name__,
                 repr(ex)[:200])
            return
        self._judge('step1', out, self.op1.surviving(self.spec, a1), unl,
                    claim, obs, getattr(self.op1, 'renamed', lambda *x: None)(
                        self.spec, a1))
        if self.op2 is None or common.wf_problems(out):
            return
        mid = spec_of(out)
        if not self.op2.applicable(mid) or self.op2.needs_second:
            return
        if self.op2.name in ('interpDimension',):
            return
        if any(d[1] == 0 for d in mid.dims) and self.op2.name.startswith(
                ('apply(', 'applystr(', 'fn.reduce', 'fn.convolve')):
            # numpy defines no minimum/maximum of an empty axis and refuses
            # apply_along_axis over zero-length iteration axes: a reduction
            # of a file with an empty dimension is outside the domain
            return
        need = [n for n in ('A',) if n not in out.variables]
        if need and any(s in self.op2.name for s in
                        ('subset', 'renameVariable', 'eval', 'getvarpnc')):
            return
        a2 = mk_a2(mid)
        unl2 = dict((d[0], d[2]) for d in mid.dims)
        try:
            out2 = self.op2.run(out, None, a2, env)
        except Exception as ex:
            cand('step2:in-domain-call-raised:' + type(ex).__name__,
                 repr(ex)[:200])
            return
        self._judge('step2', out2, self.op2.surviving(mid, a2), unl2, claim,
                    obs, getattr(self.op2, 'renamed', lambda *x: None)(
                        mid, a2))

    def sym(self, ctx, h):
        sp = self.space()
        F = sp.twin('PseudoNetCDF.core._files').PseudoNetCDFFile
        fn = sp.twin('PseudoNetCDF.core._functions')
        # structure cannot depend on data values: data are concrete here
        # (C02-C06 quantify over data); arguments stay symbolic
        vals1 = self.op1.prepare(self.spec, common.concrete_values(
            self.spec, {}, 'd'), True)
        vals2 = None
        if self.op1.needs_second:
            vals2 = common.concrete_values(self.spec, {}, 'e')
        a1 = self.op1.args(PrefixCtx(ctx, 'o1_'), self.spec)
        obs = {}

        def mk_a2(mid):
            return self.op2.args(PrefixCtx(ctx, 'o2_'), mid)
        self.profiled(self._go, F, fn, False, vals1, vals2, a1, mk_a2,
                      h.claim, h.candidate, obs)
        for k, v in obs.items():
            h.observe(k, v)

    def real(self, inputs):
        import warnings
        RF = common.real_files()
        from PseudoNetCDF.core import _functions as RFN
        vals1 = self.op1.prepare(self.spec, common.concrete_values(
            self.spec, inputs, 'd'), False)
        vals2 = common.concrete_values(self.spec, inputs, 'e') \
            if self.op1.needs_second else None
        a1 = self.op1.conc(_sub(inputs, 'o1_'), self.spec)
        viol = {}
        obs = {}

        def claim(label, e):
            if not z3.is_true(z3.simplify(e)):
                viol[label] = str(obs.get(label.split(':')[0] + ':problems'))

        def cand(label, why):
            viol[label] = why

        def mk_a2(mid):
            return self.op2.conc(_sub(inputs, 'o2_'), mid)
        with warnings.catch_warnings():
            warnings.simplefilter('ignore')
            with np.errstate(all='ignore'):
                self._go(RF.PseudoNetCDFFile, RFN, False, vals1, vals2, a1,
                         mk_a2, claim, cand, obs)
        return {'obs': obs, 'violations': viol}


def obligations(tier):
    obs = []
    cat = ops.catalogue(tier)
    for sn in ops.SPECS:
        spec = ops.SPECS[sn]()
        app = [o for o in cat if o.applicable(spec)]
        for o in app:
            if o.name.startswith(('eval', 'subset', 'renameVariable',
                                  'fn.getvarpnc')) and \
                    'A' not in [v.name for v in spec.vars]:
                continue
            obs.append(WF(sn, o))
        # chains
        if tier == 'quick':
            firsts = [o for o in app if o.name in (
                'slice_int(x)', 'slice_slice(x,step=1)', 'apply(x=mean)',
                'apply(t=diff)', 'removeSingleton(named=False)',
                'insertDimension(before=None)', 'renameDimension',
                'reorderDimensions', 'mask(greater)',
                'eval(C = A * 2,copyall=True)', 'binop(+)', 'stack(t)',
                'subset(exclude=False)')]
            seconds = [o for o in app if not o.needs_second and o.name in (
                'copy', 'slice_int(t)', 'slice_list(x)', 'apply(t=max)',
                'removeSingleton(named=False)', 'reorderDimensions',
                'renameDimension', 'insertDimension(before=True)',
                'mask(greater)', 'eval(C = A * 2,copyall=False)',
                'fn.reduce_dim', 'fn.slice_dim')]
            if sn in ('s3', 's4'):
                firsts = firsts[:4]
        else:
            firsts = app
            seconds = [o for o in app if not o.needs_second]
        for o1 in firsts:
            for o2 in seconds:
                obs.append(WF(sn, o1, o2))
    # IOAPI constructor: the time-step dimension of a constructed file and of
    # a window of it is unlimited (obligations of checks/c10.py)
    from . import c10
    for wt in (False, True):
        o = c10.Construct(2004, wt)
        o.name = 'wf-ioapi-' + o.name
        obs.append(o)
    return obs
