"""C17 -- interpolation is linear-exact; conservative regridding conserves mass.

Encoded: coordutil.py getinterpweights and sigma2coeff (whole functions, twin),
with scipy's interp1d replaced by its documented linear/extrapolate definition
and np.interp by its documented piecewise-linear definition.  Source and target
coordinates are symbolic reals (strictly monotonic)."""
import fractions

import numpy as np
import z3

from verifx import symx
from verifx.harness import Obligation
from verifx.symx import frac_of
from . import common

PROPERTY = 'C17'
LEVEL = 'model_checking'
ASSUMPTIONS = [
    'floats treated as exact reals; rounding of the weights is outside',
    'scipy.interpolate.interp1d(kind=linear, fill_value=extrapolate) and '
    'np.interp are modelled by their documented definitions (validated '
    'against scipy/numpy on a model of every path)',
    'source coordinate has >= 2 points (interp1d requirement), strictly '
    'monotonic; targets strictly monotonic in the same direction',
    'sigma grids: strictly decreasing, shared first and last edge',
    'log-interpolation, 2-D coordinate branch of interpDimension and the '
    'application along a dimension (covered structurally by C01/C03) are '
    'outside',
]

MANIFEST = {
    'category': 'model_checking',
    'technique': 'symbolic execution of the real getinterpweights / '
                 'sigma2coeff source on z3 reals (non-linear real arithmetic '
                 'for the weight identities); replay on the unpatched library '
                 'with scipy',
    'text': 'Bounded symbolic checking: for n_old in 2..3 (4 thorough) and '
            'n_new in 1..3 over ALL strictly monotonic real coordinates, the '
            'weights are non-negative and sum to one for every target, '
            'reproduce the coordinate itself (hence any linear profile) for '
            'targets inside the source range, and are the identity when '
            'target == source; for sigma grids sharing top and bottom the '
            'overlap coefficients lie in [0,1], distribute every source '
            'layer completely and give each target layer exactly its '
            'thickness (which makes interpSigma(conserve) preserve the '
            'thickness-weighted column integral and constants). '
            'interpDimension with a 2-D coordinate variable (2 levels x 2 '
            'columns, symbolic levels, targets and field coefficients) '
            'reproduces a field that is linear in each column\'s own '
            'coordinate at that column\'s target levels.',
    'note': 'Trusted: z3 (NRA), the interp1d/np.interp definitions in the '
            'shim. Floats are reals.',
}


class Weights(common.SpaceMixin, Obligation):
    mode = 'real'
    validate_paths = 6
    timeout_ms = 30000
    twin_modules = ('PseudoNetCDF.coordutil',)
    stubs = ('scipy.interpolate.interp1d (linear, extrapolate)',)

    def __init__(self, no, nn, direction, extrapolate=False, same=False):
        self.no, self.nn, self.dir = no, nn, direction
        self.extrap, self.same = extrapolate, same
        self.name = 'weights[n_old=%d,n_new=%d,%s,extrapolate=%s,same=%s]' % (
            no, nn, direction, extrapolate, same)
        self.bounds = {'n_old': no, 'n_new': nn}

    def sym(self, ctx, h):
        sp = self.space()
        fn = sp.twin('PseudoNetCDF.coordutil').getinterpweights
        sgn = 1 if self.dir == 'asc' else -1
        xs = [ctx.real('x%d' % i) for i in range(self.no)]
        for a, b in zip(xs[:-1], xs[1:]):
            ctx.assume(sgn * (b.e - a.e) > 0)
        if self.same:
            ns = xs
        else:
            ns = [ctx.real('n%d' % i) for i in range(self.nn)]
            for a, b in zip(ns[:-1], ns[1:]):
                ctx.assume(sgn * (b.e - a.e) > 0)
        xa = np.array(xs, dtype=object)
        na = np.array(ns, dtype=object)
        try:
            w = self.profiled(fn, xa, na, extrapolate=self.extrap)
        except Exception as ex:
            h.candidate('in-domain-call-raised:' + type(ex).__name__,
                        repr(ex)[:200])
            return
        h.observe('w', w)
        self._claims(w, xs, ns, h.claim)

    def _claims(self, w, xs, ns, claim, tol=None):
        no, nn = len(xs), len(ns)
        claim('shape', z3.BoolVal(tuple(np.shape(w)) == (no, nn)))
        if tuple(np.shape(w)) != (no, nn):
            return

        def e(v):
            return v.e if isinstance(v, symx.Sym) else symx._rv(v)

        def near(a, b):
            if tol is None:
                return e(a) == e(b)
            d = e(a) - e(b)
            return z3.And(d <= tol, d >= -tol)
        lo = xs[0] if self.dir == 'asc' else xs[-1]
        hi = xs[-1] if self.dir == 'asc' else xs[0]
        for j in range(nn):
            col = [w[i, j] for i in range(no)]
            s = col[0]
            for c in col[1:]:
                s = s + c
            claim('sum-to-one[%d]' % j, near(s, 1))
            inside = z3.And(e(ns[j]) >= e(lo), e(ns[j]) <= e(hi))
            if not self.extrap:
                claim('non-negative[%d]' % j,
                      z3.And(*[e(c) >= (0 if tol is None else -tol)
                               for c in col]))
            else:
                claim('non-negative-inside[%d]' % j, z3.Implies(
                    inside, z3.And(*[e(c) >= (0 if tol is None else -tol)
                                     for c in col])))
            lin = col[0] * xs[0]
            for c, x in zip(col[1:], xs[1:]):
                lin = lin + c * x
            if self.extrap:
                claim('linear-exact[%d]' % j, near(lin, ns[j]))
            else:
                claim('linear-exact-inside[%d]' % j,
                      z3.Implies(inside, near(lin, ns[j])))
            if self.same:
                claim('identity[%d]' % j, z3.And(*[
                    near(col[i], 1 if i == j else 0) for i in range(no)]))

    def real(self, inputs):
        import warnings
        with warnings.catch_warnings():
            warnings.simplefilter('ignore')
            from PseudoNetCDF.coordutil import getinterpweights
        xs = [float(frac_of(inputs['x%d' % i])) for i in range(self.no)]
        ns = xs if self.same else [float(frac_of(inputs['n%d' % i]))
                                   for i in range(self.nn)]
        viol = {}
        try:
            with np.errstate(all='ignore'):
                w = getinterpweights(np.array(xs), np.array(ns),
                                     extrapolate=self.extrap)
        except Exception as ex:
            viol['in-domain-call-raised:' + type(ex).__name__] = repr(ex)[:200]
            return {'obs': {}, 'violations': viol}

        def claim(label, ex):
            if not z3.is_true(z3.simplify(ex)):
                viol[label] = 'fails: %s' % label
        fx = [fractions.Fraction(x) for x in xs]
        fn = [fractions.Fraction(x) for x in ns]
        wf = np.empty(w.shape, dtype=object)
        for idx in np.ndindex(*w.shape):
            wf[idx] = fractions.Fraction(float(w[idx])) \
                if np.isfinite(w[idx]) else fractions.Fraction(10 ** 9)
        scale = max([abs(x) for x in fx + fn] + [1])
        self._claims(wf, fx, fn, claim, tol=z3.Q(1, 10 ** 9) *
                     symx._rv(scale))
        return {'obs': {'w': w.tolist()}, 'violations': viol}


class Sigma(common.SpaceMixin, Obligation):
    mode = 'real'
    validate_paths = 8
    timeout_ms = 30000
    max_paths = 4000
    objfloat = True
    twin_modules = ('PseudoNetCDF.coordutil',)
    stubs = ('numpy.interp (documented definition)',
             'np.zeros(float) allocates an object array (real mode)')

    def __init__(self, no, nn):
        self.no, self.nn = no, nn  # numbers of edges
        self.name = 'sigma2coeff[from=%d,to=%d edges]' % (no, nn)
        self.bounds = {'from_edges': no, 'to_edges': nn}

    def sym(self, ctx, h):
        sp = self.space()
        fn = sp.twin('PseudoNetCDF.coordutil').sigma2coeff
        fr = [ctx.real('f%d' % i) for i in range(self.no)]
        to = [fr[0]] + [ctx.real('t%d' % i) for i in range(1, self.nn - 1)] \
            + [fr[-1]]
        for a, b in zip(fr[:-1], fr[1:]):
            ctx.assume(a.e > b.e)
        for a, b in zip(to[:-1], to[1:]):
            ctx.assume(a.e > b.e)
        try:
            c = self.profiled(fn, np.array(fr, dtype=object),
                              np.array(to, dtype=object))
        except Exception as ex:
            h.candidate('in-domain-call-raised:' + type(ex).__name__,
                        repr(ex)[:200])
            return
        h.observe('coeff', c)
        self._claims(c, fr, to, h.claim)

    def _claims(self, c, fr, to, claim, tol=None):
        nl, ml = len(fr) - 1, len(to) - 1
        claim('shape', z3.BoolVal(tuple(np.shape(c)) == (nl, ml)))
        if tuple(np.shape(c)) != (nl, ml):
            return

        def e(v):
            return v.e if isinstance(v, symx.Sym) else symx._rv(v)

        def near(a, b):
            if tol is None:
                return e(a) == e(b)
            d = e(a) - e(b)
            return z3.And(d <= tol, d >= -tol)
        t0 = 0 if tol is None else -tol
        t1 = 1 if tol is None else 1 + tol
        dfr = [fr[i] - fr[i + 1] for i in range(nl)]
        dto = [to[j] - to[j + 1] for j in range(ml)]
        for i in range(nl):
            row = c[i, 0]
            for j in range(1, ml):
                row = row + c[i, j]
            claim('source-layer-fully-distributed[%d]' % i, near(row, 1))
            for j in range(ml):
                claim('coeff-in-unit-interval[%d,%d]' % (i, j),
                      z3.And(e(c[i, j]) >= t0, e(c[i, j]) <= t1))
        for j in range(ml):
            col = c[0, j] * dfr[0]
            for i in range(1, nl):
                col = col + c[i, j] * dfr[i]
            claim('target-thickness[%d]' % j, near(col, dto[j]))

    def real(self, inputs):
        import warnings
        with warnings.catch_warnings():
            warnings.simplefilter('ignore')
            from PseudoNetCDF.coordutil import sigma2coeff
        fr = [float(frac_of(inputs['f%d' % i])) for i in range(self.no)]
        to = [fr[0]] + [float(frac_of(inputs['t%d' % i]))
                        for i in range(1, self.nn - 1)] + [fr[-1]]
        viol = {}
        try:
            c = sigma2coeff(np.array(fr), np.array(to))
        except Exception as ex:
            viol['in-domain-call-raised:' + type(ex).__name__] = repr(ex)[:200]
            return {'obs': {}, 'violations': viol}

        def claim(label, ex):
            if not z3.is_true(z3.simplify(ex)):
                viol[label] = 'fails: %s' % label
        cf = np.empty(c.shape, dtype=object)
        for idx in np.ndindex(*c.shape):
            cf[idx] = fractions.Fraction(float(c[idx]))
        self._claims(cf, [fractions.Fraction(x) for x in fr],
                     [fractions.Fraction(x) for x in to], claim,
                     tol=z3.Q(1, 10 ** 9))
        return {'obs': {'coeff': c.tolist()}, 'violations': viol}



class InterpND(common.SpaceMixin, Obligation):
    """interpDimension with a 2-D coordinate variable (levels differ from
    column to column): every column of a field that is linear in its own
    coordinate is reproduced exactly at that column's target levels"""
    mode = 'real'
    validate_paths = 3
    timeout_ms = 30000
    twin_modules = ('PseudoNetCDF.core._files', 'PseudoNetCDF.coordutil')
    objfloat = True
    stubs = ('scipy.interpolate.interp1d (linear, extrapolate)',)

    def __init__(self, same_source):
        self.same = same_source
        self.name = 'interpDimension-2D-coordinate[source columns %s]' % (
            'equal' if same_source else 'different')
        self.bounds = {'levels': 2, 'columns': 2, 'target levels': 2,
                       'targets': 'inside the source range of their column'}

    def _build(self, F, zs, ns, ab, symbolic):
        f = F()
        f.createDimension('z', 2)
        f.createDimension('x', 2)
        tc = 'O' if symbolic else 'd'
        zc = f.createVariable('ZC', tc, ('z', 'x'))
        v = f.createVariable('V', tc, ('z', 'x'))
        for x in range(2):
            for k in range(2):
                zc[k, x] = zs[x][k]
                v[k, x] = ab[x][0] + ab[x][1] * zs[x][k]
        nz = f.createVariable('NZ', tc, ('z', 'x'))
        for x in range(2):
            for k in range(2):
                nz[k, x] = ns[x][k]
        return f

    def _go(self, f, ns, ab, claim, symbolic):
        nzv = f.variables['NZ']
        out = f.interpDimension('z', nzv, coordkey='ZC')
        got = common.getdata(out.variables['V'])
        claim('shape', z3.BoolVal(tuple(got.shape) == (2, 2)))
        if tuple(got.shape) != (2, 2):
            return
        for x in range(2):
            for k in range(2):
                exp = ab[x][0] + ab[x][1] * ns[x][k]
                claim('linear-exact[level=%d,column=%d]' % (k, x),
                      common.eq_expr(got[k, x], exp) if symbolic else
                      common.close_expr(got[k, x], exp, 1e-9))

    def _vals(self, ctx):
        zs, ns, ab = [], [], []
        for x in range(2):
            if x == 1 and self.same:
                zs.append(zs[0])
            else:
                z0 = ctx.real('z%d0' % x)
                z1 = ctx.real('z%d1' % x)
                ctx.assume(z1.e - z0.e >= 1)
                zs.append([z0, z1])
            n0 = ctx.real('n%d0' % x)
            n1 = ctx.real('n%d1' % x)
            ctx.assume(z3.And(n0.e >= zs[x][0].e, n1.e > n0.e,
                              n1.e <= zs[x][1].e))
            ns.append([n0, n1])
            ab.append([ctx.real('a%d' % x), ctx.real('b%d' % x)])
        return zs, ns, ab

    def sym(self, ctx, h):
        sp = self.space()
        F = sp.twin('PseudoNetCDF.core._files').PseudoNetCDFFile
        zs, ns, ab = self._vals(ctx)
        try:
            f = self._build(F, zs, ns, ab, True)
            self.profiled(self._go, f, ns, ab, h.claim, True)
        except Exception as ex:
            h.candidate('in-domain-call-raised:' + type(ex).__name__,
                        repr(ex)[:200])

    def real(self, inputs):
        import warnings
        RF = common.real_files()
        fl = lambda k, d: float(frac_of(inputs.get(k, d)))  # noqa
        zs, ns, ab = [], [], []
        for x in range(2):
            if x == 1 and self.same:
                zs.append(zs[0])
            else:
                zs.append([fl('z%d0' % x, 0.0), fl('z%d1' % x, 4.0)])
            ns.append([fl('n%d0' % x, 1.0), fl('n%d1' % x, 2.0 + x)])
            ab.append([fl('a%d' % x, 1.0), fl('b%d' % x, 2.0)])
        viol = {}

        def claim(label, e):
            if not z3.is_true(z3.simplify(e)):
                viol[label] = 'fails: ' + label
        try:
            with warnings.catch_warnings():
                warnings.simplefilter('ignore')
                f = self._build(RF.PseudoNetCDFFile, zs, ns, ab, False)
                self._go(f, ns, ab, claim, False)
        except Exception as ex:
            viol['in-domain-call-raised:' + type(ex).__name__] = \
                repr(ex)[:200]
        return {'obs': {}, 'violations': viol}

def obligations(tier):
    obs = []
    nos = (2, 3) if tier == 'quick' else (2, 3, 4)
    nns = (1, 2) if tier == 'quick' else (1, 2, 3)
    for no in nos:
        for d in ('asc', 'desc'):
            for nn in nns:
                for ex in (False, True):
                    obs.append(Weights(no, nn, d, ex))
            obs.append(Weights(no, no, d, False, same=True))
    # same length, distinct symbolic targets (a "close enough" shortcut must
    # not replace interpolation)
    for no in nos:
        obs.append(Weights(no, no, 'asc', False))
    for no, nn in ((2, 2), (2, 3), (3, 2), (3, 3)) + (
            ((3, 4), (4, 3), (4, 4)) if tier == 'thorough' else ()):
        obs.append(Sigma(no, nn))
    for same in (True, False):
        obs.append(InterpND(same))
    return obs
