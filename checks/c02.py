"""C02 -- dimension slicing selects exactly the requested hyperslab.

Encoded: PseudoNetCDFFile.sliceDimensions with copyVariable/createVariable/
copyDimension/_copywith and the variable classes (twins of core/_files.py,
core/_variables.py, core/_dimensions.py).  Data cells are unconstrained
symbolic integers (so equality of a result cell with the expected source cell is
a validity query: it holds iff it is the *same* cell for all data); selector
integers, slice starts/stops and index-list entries are symbolic and are
concretised by solver-driven forking where they reach numpy indexing.
"""
import itertools

import numpy as np
import z3

from verifx import symx
from verifx.harness import Obligation
from verifx.symx import frac_of
from . import common
from .common import FileSpec, VarSpec

PROPERTY = 'C02'
LEVEL = 'model_checking'
ASSUMPTIONS = [
    'numpy indexing/assignment is numpy itself (object arrays); selector '
    'integers are symbolic until they cross into numpy (__index__), where all '
    'feasible values within the bounds are forked',
    'in-domain selectors: integers in [-n, n); slice start/stop in '
    '[-n-1, n+1] or None, step in {-2,-1,1,2,3}; index lists of equal '
    'length with entries in [-n, n); newdims has one name',
    'mask bits are enumerated patterns (concrete), data cells symbolic',
    'string form slice_dim (eval of text) only through concrete agreement',
]

MANIFEST = {
    'category': 'model_checking',
    'technique': 'symbolic execution of the real sliceDimensions source on '
                 'numpy object arrays of z3 integers; per-path SMT validity '
                 'of cell-wise equality with an orthogonal/zipped reference '
                 'selection; replay on the unpatched library',
    'text': 'Bounded symbolic checking: for every enumerated file shape '
            '(ranks 1-3, lengths <=3, coordinate/masked/partial-dimension '
            'variables) and selector-kind combination, over ALL selector '
            'values in the stated ranges and ALL data values, the sliced '
            'file equals the per-axis (or zipped) reference selection in '
            'data, masks, dimension names/lengths/unlimited flags and '
            'attributes, and in-domain calls complete.'
            ' Also: masked variables with and without a declared fill value; for IOAPI files the TFLAG rows under index lists, stepped and contiguous windows of time steps.',
    'note': 'Trusted: z3, numpy indexing itself, the reference selection '
            'written in the harness from Python slice/negative-index rules. '
            'Shapes are bounded; symbolic selectors are covered by '
            'solver-driven case split at the numpy boundary.',
}


def _sel_indices(n, sel):
    kind = sel[0]
    if kind == 'int':
        return [sel[1] % n]
    if kind == 'slice':
        return list(range(n))[slice(sel[1], sel[2], sel[3])]
    if kind == 'list':
        return [x % n for x in sel[1]]
    raise ValueError(kind)


def reference(spec, src, sels, newdim='POINTS'):
    """expected (dims, data, mask) per variable; sels: dim -> concrete sel.
    src: name -> (data, mask) plain arrays"""
    listdims = [d for d, s in sels.items() if s[0] == 'list']
    zipped = len(listdims) > 1
    out = {}
    newlens = {}
    for name, n, unl in spec.dims:
        if name in sels:
            newlens[name] = len(_sel_indices(n, sels[name]))
        else:
            newlens[name] = n
    for v in spec.vars:
        data, mask = src[v.name]
        vl = [d for d in v.dims if d in listdims]
        idxs = []
        for d in v.dims:
            n = spec.dimlen(d)
            idxs.append(_sel_indices(n, sels[d]) if d in sels
                        else list(range(n)))
        if zipped and len(vl) > 1:
            first = min(v.dims.index(d) for d in vl)
            npts = len(idxs[v.dims.index(vl[0])])
            odims = [d for d in v.dims if d not in vl]
            odims.insert(first, newdim)
            oax = [i for i, d in enumerate(v.dims) if d not in vl]
            oshape = [len(idxs[i]) for i in oax]
            oshape.insert(first, npts)
            rd = np.empty(oshape, dtype=object)
            rm = np.zeros(oshape, dtype=bool)
            for p in range(npts):
                for combo in itertools.product(*[range(len(idxs[i]))
                                                 for i in oax]):
                    sidx = [None] * len(v.dims)
                    for i, c in zip(oax, combo):
                        sidx[i] = idxs[i][c]
                    for d in vl:
                        i = v.dims.index(d)
                        sidx[i] = idxs[i][p]
                    oc = list(combo)
                    oc.insert(first, p)
                    rd[tuple(oc)] = data[tuple(sidx)]
                    rm[tuple(oc)] = mask[tuple(sidx)]
            out[v.name] = (tuple(odims), rd, rm)
        else:
            oshape = [len(i) for i in idxs]
            rd = np.empty(oshape, dtype=object)
            rm = np.zeros(oshape, dtype=bool)
            for combo in itertools.product(*[range(k) for k in oshape]):
                sidx = tuple(idxs[i][c] for i, c in enumerate(combo))
                rd[combo] = data[sidx]
                rm[combo] = mask[sidx]
            out[v.name] = (tuple(v.dims), rd, rm)
    return out, newlens, (listdims if zipped else [])


class Slice(common.SpaceMixin, Obligation):
    mode = 'tags (integers)'
    validate_paths = 12
    max_paths = 6000
    stubs = ('pncwarn.warn (recorder)',)

    def __init__(self, spec, kinds, order=None, tag='', pin=None):
        """kinds: dim -> ('int',) | ('slice', has_start, has_stop, step) |
        ('list', length)"""
        self.spec = spec
        self.kinds = dict(kinds)
        self.order = list(order or kinds.keys())
        ks = ','.join('%s=%s' % (d, ':'.join(str(x) for x in self.kinds[d]))
                      for d in self.order)
        self.pin = dict(pin or {})
        if self.pin:
            tag += '|pin ' + ','.join('%s=%d' % kv
                                      for kv in sorted(self.pin.items()))
        self.name = 'slice[%s|%s%s]' % (spec.label, ks, tag)
        self.bounds = {'shape': [d[1] for d in spec.dims],
                       'variables': [(v.name, v.dims) for v in spec.vars],
                       'selectors': ks, 'data': 'unbounded integers'}

    def _mk_sels(self, ctx):
        sels = {}
        for d in self.order:
            k = self.kinds[d]
            n = self.spec.dimlen(d)
            if k[0] == 'int':
                sels[d] = ('int', ctx.int('k_' + d, -n, n - 1))
            elif k[0] == 'slice':
                a = ctx.int('a_' + d, -n - 1, n + 1) if k[1] else None
                b = ctx.int('b_' + d, -n - 1, n + 1) if k[2] else None
                sels[d] = ('slice', a, b, k[3])
            else:
                sels[d] = ('list', [ctx.int('l_%s_%d' % (d, i), -n, n - 1)
                                    for i in range(k[1])])
        for name, val in self.pin.items():
            ctx.assume(ctx.inputs[name] == val, check=False)
        return sels

    def symvars(self):
        """(name, lo, hi) of the symbolic selector integers, in order"""
        out = []
        for d in self.order:
            k = self.kinds[d]
            n = self.spec.dimlen(d)
            if k[0] == 'int':
                out.append(('k_' + d, -n, n - 1))
            elif k[0] == 'slice':
                if k[1]:
                    out.append(('a_' + d, -n - 1, n + 1))
                if k[2]:
                    out.append(('b_' + d, -n - 1, n + 1))
            else:
                out += [('l_%s_%d' % (d, i), -n, n - 1) for i in range(k[1])]
        return out

    def est_paths(self):
        p = 1
        for name, lo, hi in self.symvars():
            if name not in self.pin:
                p *= hi - lo + 1
        return p

    def split(self, limit=400):
        """partition a large case split over several processes by pinning
        leading selector variables to each of their values"""
        if self.est_paths() <= limit:
            return [self]
        for name, lo, hi in self.symvars():
            if name not in self.pin:
                out = []
                for v in range(lo, hi + 1):
                    p = dict(self.pin)
                    p[name] = v
                    tag = '|rev' if self.order != list(self.kinds) else ''
                    out += Slice(self.spec, self.kinds, self.order, tag,
                                 p).split(limit)
                return out
        return [self]

    @staticmethod
    def _arg(sel):
        if sel[0] == 'int':
            return sel[1]
        if sel[0] == 'slice':
            return slice(sel[1], sel[2], sel[3])
        # numpy turns a list into an array before looking at the elements
        # (no __index__ call): fork the entries here, same case split
        return [int(x) for x in sel[1]]

    @staticmethod
    def _conc(sel):
        c = lambda x: None if x is None else int(x)  # noqa
        if sel[0] == 'int':
            return ('int', c(sel[1]))
        if sel[0] == 'slice':
            return ('slice', c(sel[1]), c(sel[2]), sel[3])
        return ('list', [c(x) for x in sel[1]])

    def sym(self, ctx, h):
        sp = self.space()
        F = sp.twin('PseudoNetCDF.core._files').PseudoNetCDFFile
        vals = common.sym_values(ctx, self.spec)
        sels = self._mk_sels(ctx)
        f = common.build(F, self.spec, vals, True)
        kw = dict((d, self._arg(sels[d])) for d in self.order)
        if sum(1 for k in self.kinds.values() if k[0] == 'list') > 1:
            # zipped path: the library wraps integers into lists ([k]) that
            # numpy converts without __index__: fork them here instead
            for d in kw:
                if self.kinds[d][0] == 'int':
                    kw[d] = int(kw[d])
        try:
            out = self.profiled(f.sliceDimensions, **kw)
        except Exception as ex:
            h.candidate('in-domain-call-raised:' + type(ex).__name__,
                        repr(ex)[:200])
            return
        csel = dict((d, self._conc(s)) for d, s in sels.items())
        src = common.source_arrays(self.spec, vals, True)
        self._compare(out, src, csel, h.claim, True, h)

    def _compare(self, out, src, csel, claim, symbolic, h=None):
        ref, newlens, zipped = reference(self.spec, src, csel)
        obs = common.compare_expected(out, self.spec, ref, newlens, claim)
        if h is not None:
            for k, val in obs.items():
                h.observe(k, val)
        return obs

    def real(self, inputs):
        RF = common.real_files()
        vals = common.concrete_values(self.spec, inputs)
        f = common.build(RF.PseudoNetCDFFile, self.spec, vals, False)
        csel = {}
        for d in self.order:
            k = self.kinds[d]
            n = self.spec.dimlen(d)
            g = lambda nm, dflt=0: int(frac_of(inputs.get(nm, dflt)))  # noqa
            if k[0] == 'int':
                csel[d] = ('int', g('k_' + d))
            elif k[0] == 'slice':
                csel[d] = ('slice', g('a_' + d) if k[1] else None,
                           g('b_' + d) if k[2] else None, k[3])
            else:
                csel[d] = ('list', [g('l_%s_%d' % (d, i))
                                    for i in range(k[1])])
        kw = dict((d, self._arg(csel[d])) for d in self.order)
        viol = {}
        import warnings
        try:
            with warnings.catch_warnings():
                warnings.simplefilter('ignore')
                out = f.sliceDimensions(**kw)
        except Exception as ex:
            viol['in-domain-call-raised:' + type(ex).__name__] = repr(ex)[:200]
            return {'obs': {}, 'violations': viol, 'call': repr(kw)}
        src = common.source_arrays(self.spec, vals, False)

        def claim(label, e):
            if not z3.is_true(z3.simplify(e)):
                viol[label] = 'reference selection differs (%s)' % label
        obs = self._compare(out, src, csel, claim, False)
        return {'obs': obs, 'violations': viol, 'call': repr(kw)}


class SliceDim(common.SpaceMixin, Obligation):
    """string form used by the command line: core/_functions.py:slice_dim.
    The numbers inside the text are symbolic: str(SymInt) yields a token
    that the twin's eval maps back to the symbolic integer."""
    mode = 'tags (integers)'
    validate_paths = 10
    twin_modules = ('PseudoNetCDF.core._files',
                    'PseudoNetCDF.core._functions')
    stubs = ('pncwarn.warn (recorder)', 'builtin eval (token round trip)')

    def __init__(self, spec, dim, form, stride=None):
        self.spec, self.dim, self.form, self.stride = spec, dim, form, stride
        self.name = 'slice_dim[%s|%s,%s,%s]' % (spec.label, dim, form, stride)
        self.bounds = {'shape': [d[1] for d in spec.dims], 'form': form,
                       'stride': stride}

    def _fuzzy(self):
        dk = self.dim
        return [d[0] for d in self.spec.dims
                if d[0] == dk or (d[0][:len(dk)] == dk and
                                  d[0][len(dk):].isdigit())]

    def _text(self, a, b):
        if self.form == 'k':
            return '%s,%s' % (self.dim, a)
        if self.stride is None:
            return '%s,%s,%s' % (self.dim, a, b)
        return '%s,%s,%s,%s' % (self.dim, a, b, self.stride)

    def _csel(self, a, b):
        sels = {}
        for d in self._fuzzy():
            if self.form == 'k':
                sels[d] = ('slice', a, a + 1, None)
            else:
                sels[d] = ('slice', a, b, self.stride)
        return sels

    def sym(self, ctx, h):
        sp = self.space()
        F = sp.twin('PseudoNetCDF.core._files').PseudoNetCDFFile
        fn = sp.twin('PseudoNetCDF.core._functions').slice_dim
        vals = common.sym_values(ctx, self.spec)
        n = self.spec.dimlen(self.dim)
        if self.form == 'k':
            a = ctx.int('a', 0, n - 1)
            b = None
        else:
            a = ctx.int('a', -n - 1, n + 1)
            b = ctx.int('b', -n - 1, n + 1)
        f = common.build(F, self.spec, vals, True)
        try:
            out = self.profiled(fn, f, self._text(a, b))
        except Exception as ex:
            h.candidate('in-domain-call-raised:' + type(ex).__name__,
                        repr(ex)[:200])
            return
        ca = int(a)
        cb = None if b is None else int(b)
        src = common.source_arrays(self.spec, vals, True)
        Slice._compare(self, out, src, self._csel(ca, cb), h.claim, True, h)

    def real(self, inputs):
        import warnings
        RF = common.real_files()
        from PseudoNetCDF.core._functions import slice_dim
        vals = common.concrete_values(self.spec, inputs)
        f = common.build(RF.PseudoNetCDFFile, self.spec, vals, False)
        a = int(frac_of(inputs.get('a', 0)))
        b = int(frac_of(inputs.get('b', 0))) if self.form != 'k' else None
        viol = {}
        try:
            with warnings.catch_warnings():
                warnings.simplefilter('ignore')
                out = slice_dim(f, self._text(a, b))
        except Exception as ex:
            viol['in-domain-call-raised:' + type(ex).__name__] = repr(ex)[:200]
            return {'obs': {}, 'violations': viol}
        src = common.source_arrays(self.spec, vals, False)

        def claim(label, e):
            if not z3.is_true(z3.simplify(e)):
                viol[label] = 'reference selection differs (%s)' % label
        obs = Slice._compare(self, out, src, self._csel(a, b), claim, False)
        return {'obs': obs, 'violations': viol, 'call': self._text(a, b)}


def _specs(tier):
    A = {'units': 'ppb', 'long_name': 'O3'}
    s1 = FileSpec([('t', 2, True), ('x', 3, False)], [
        VarSpec('x', ('x',), attrs={'units': 'm'}, coord=True),
        VarSpec('A', ('t', 'x'), attrs=A, kind='int'),
        VarSpec('M', ('t', 'x'), masked=(1, 3), kind='int'),
        # masked without a declared fill value
        VarSpec('N', ('t', 'x'), masked=(2,), kind='int', declared=False),
        VarSpec('T', ('t',), kind='int'),
    ], attrs={'title': 'test'}, label='t2x3')
    s2 = FileSpec([('t', 2, True), ('y', 2, False), ('x', 3, False)], [
        VarSpec('A', ('t', 'y', 'x'), attrs=A, kind='int'),
        VarSpec('B', ('y', 'x'), kind='int'),
        VarSpec('M', ('t', 'x'), masked=(0, 4), kind='int'),
        VarSpec('S', (), kind='int'),
    ], attrs={'title': 'test'}, label='t2y2x3')
    s3 = FileSpec([('t', 3, False), ('z', 2, False), ('x', 2, False)], [
        VarSpec('A', ('t', 'z', 'x'), kind='int'),
        VarSpec('R', ('x', 't'), kind='int'),
    ], label='t3z2x2')
    specs = [s1, s2, s3]
    if tier == 'thorough':
        specs.append(FileSpec(
            [('t', 2, True), ('z', 2, False), ('y', 3, False),
             ('x', 2, False)],
            [VarSpec('A', ('t', 'z', 'y', 'x'), kind='int'),
             VarSpec('M', ('z', 'x'), masked=(2,), kind='int'),
             VarSpec('y', ('y',), kind='int', coord=True)], label='t2z2y3x2'))
    return specs


def obligations(tier):
    obs = []
    steps = (1, -1, 2) if tier == 'quick' else (1, -1, 2, -2, 3)
    for spec in _specs(tier):
        dims = [d[0] for d in spec.dims]
        # single-dimension selectors
        for d in dims:
            obs.append(Slice(spec, {d: ('int',)}))
            for st in steps:
                obs.append(Slice(spec, {d: ('slice', True, True, st)}))
            obs.append(Slice(spec, {d: ('slice', True, False, 1)}))
            obs.append(Slice(spec, {d: ('slice', False, True, -1)}))
            obs.append(Slice(spec, {d: ('list', 2)}))
            if tier == 'thorough':
                obs.append(Slice(spec, {d: ('list', 3)}))
        # pairs, both keyword orders
        if tier == 'quick':
            kinds = [('int',), ('slice', True, False, 1), ('list', 2)]
        else:
            kinds = [('int',), ('slice', True, True, 1), ('list', 2),
                     ('slice', True, True, -1), ('list', 1)]
        for d1, d2 in itertools.combinations(dims, 2):
            for k1, k2 in itertools.product(kinds, kinds):
                if k1[0] == 'list' and k2[0] == 'list' and k1 != k2:
                    # index lists of different lengths are outside the
                    # property (the library rejects them with ValueError)
                    continue
                obs.append(Slice(spec, {d1: k1, d2: k2}))
                if k1 != k2 and (tier == 'thorough' or (
                        (k1[0] == 'list' or k2[0] == 'list')
                        and spec.label != 't3z2x2')):
                    obs.append(Slice(spec, {d1: k1, d2: k2},
                                     order=[d2, d1], tag='|rev'))
            if tier == 'quick':
                obs.append(Slice(spec, {d1: ('int',),
                                        d2: ('slice', True, True, 1)}))
                obs.append(Slice(spec, {d1: ('slice', True, True, -1),
                                        d2: ('int',)}))
        # triples
        if len(dims) >= 3:
            L = ('list', 1) if tier == 'quick' else ('list', 2)
            trip = [(('int',), ('slice', True, False, 1), ('list', 2)),
                    (L, ('int',), L),
                    (('int',), ('list', 2), ('int',)),
                    (L, L, L),
                    (L, ('slice', False, True, 1), L)]
            for ks in trip:
                obs.append(Slice(spec, dict(zip(dims[:3], ks))))
    if tier == 'quick':
        # one rank-4 case: index lists on non-adjacent axes, first list axis
        # not axis 0 (numpy moves a broadcast axis to the front there)
        s4 = FileSpec([('t', 2, True), ('z', 2, False), ('y', 2, False),
                       ('x', 2, False)],
                      [VarSpec('A', ('t', 'z', 'y', 'x'), kind='int'),
                       VarSpec('M', ('z', 'y', 'x'), masked=(1, 6),
                               kind='int')], label='t2z2y2x2')
        obs.append(Slice(s4, {'z': ('list', 2), 'x': ('list', 2)}))
        obs.append(Slice(s4, {'t': ('int',), 'z': ('list', 2),
                              'x': ('list', 2)}))
        obs.append(Slice(s4, {'z': ('list', 1), 'y': ('slice', True, False, -1),
                              'x': ('list', 1)}))
    out = []
    for o in obs:
        out += o.split(400)
    sf = FileSpec([('t', 2, True), ('LAY', 3, False), ('LAY1', 4, False)],
                  [VarSpec('A', ('t', 'LAY'), kind='int',
                           attrs={'units': 'ppb'}),
                   VarSpec('E', ('LAY1',), kind='int'),
                   VarSpec('M', ('LAY', 't'), masked=(2,), kind='int'),
                   VarSpec('T', ('t',), kind='int')],
                  attrs={'title': 'test'}, label='t2L3L4')
    for stride in ((None, 1, 2, -1) if tier == 'quick'
                   else (None, 1, 2, 3, -1, -2)):
        out.append(SliceDim(sf, 'LAY', 'ab', stride))
        out.append(SliceDim(sf, 't', 'ab', stride))
    out.append(SliceDim(sf, 'LAY', 'k'))
    out.append(SliceDim(sf, 't', 'k'))
    # IOAPI files: a selection of time steps also selects the rows of the
    # TFLAG variable (checks/c10.py obligations, row claims only)
    from . import c10
    for name, T in (('slice-TSTEP-list', 4), ('slice-TSTEP-list3', 4),
                    ('slice-TSTEP-step', 4),
                    ('slice-TSTEP-slice', 3), ('slice-TSTEP-int', 3)):
        o = c10.Preserve(name, 2004, T)
        o.rows_only = True
        o.name = 'ioapi-' + o.name
        out.append(o)
    return out
