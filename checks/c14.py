"""C14 -- truncated binary files are never silently misread (uamiv memmap).

Encoded: the size-dependent statements of camxfiles/uamiv/Memmap.py
uamiv.__readheader (AST slice: offset accumulation from the real numpy header
dtypes, block sizes, the number of time steps and the "Partial time output"
guard), under the documented np.memmap contract.  The cut offset L is an
unbounded symbolic integer; grid parameters are enumerated."""
import os
import tempfile

import numpy as np
import z3

from verifx import symx, loader
from verifx.harness import Obligation
from verifx.symx import frac_of
from . import common, layouts, metmap

PROPERTY = 'C14'
LEVEL = 'model_checking'
ASSUMPTIONS = [
    'np.memmap contract (numpy documentation): with an explicit shape it '
    'raises when offset + bytes exceeds the file; without shape it raises '
    'unless (size - offset) is a positive multiple of the item size',
    'the float division (size-offset)/4./block is treated over the reals '
    '(exact for file sizes below 2**53 bytes; a quotient can only round to a '
    'wrong integer beyond that)',
    'nx, ny, nz, nspec, T enumerated (small); the cut offset L is an '
    'unbounded symbolic integer in [header, full size)',
    'header-less met readers (one3d = humidity/vertical_diffusivity, '
    'temperature, height_pressure): run whole on a prefix of a small concrete '
    'reference file (nz<=2, T=3, <=3 cells) whose length is symbolic; the '
    'path forks over the feasible lengths, after which the run is numpy\'s '
    'own code on the real prefix; the last word of the cut file is an '
    'arbitrary 32-bit pattern when it is payload (checks/metmap.py)',
    'wind and cloud_rain readers: same scheme on a real scratch prefix '
    'file (they open the path themselves), with a 4 s termination limit; '
    'lateral_boundary likewise (inside its static header only the last 64 '
    'byte offsets); landuse and bpch readers are not encoded',
]

MANIFEST = {
    'category': 'model_checking',
    'technique': 'AST-sliced size arithmetic of the real uamiv memmap reader '
                 '(offsets from the real numpy dtypes) executed on a symbolic '
                 'file length; SMT validity of "raises or exposes only whole '
                 'steps at the reference offsets"; replay by truncating a '
                 'real file',
    'text': 'Bounded symbolic checking for the gridded (uamiv) memmap '
            'reader: for enumerated small grids and EVERY cut offset L '
            'between the end of the header and the full size, the reader '
            'either raises or computes a whole number of complete time steps '
            'that fit in L, located at the byte offsets the CAMx layout '
            'prescribes (so the exposed data are those of the full file). '
            'For the header-less met readers (one3d, temperature, '
            'height_pressure; nz<=2, T=3): for every byte offset, and every '
            'value of the trailing payload word, the reader raises or '
            'exposes whole steps with the values and time flags of the full '
            'file.',
    'note': 'Trusted: z3, numpy dtype item sizes (real numpy), the np.memmap '
            'contract, the reference layout. Cuts inside the header rely on '
            'the memmap contract alone. The met-reader obligations are '
            'concrete numpy runs per solver-derived length class.',
}

NAMES = ['nspec', 'nx', 'ny', 'nz', 'offset', 'date_time_block_size',
         'spc_1_lay_block_size', 'data_block_size', 'ntimes']


class FakeMap(object):
    def __init__(self, dtype, size):
        self.dtype, self.size = dtype, size


class SizedFile(object):
    """what open(path) gives the reader when it only asks for the size"""

    def __init__(self, size):
        self.size = size
        self.pos = 0

    def seek(self, off, whence=0):
        self.pos = self.size + off if whence == 2 else off

    def tell(self):
        return self.pos

    def close(self):
        pass

    def __enter__(self):
        return self

    def __exit__(self, *a):
        return False


def header_maps(holder, lay):
    """what the reader's header memmaps hold for a file of the reference
    layout: real numpy structured arrays (real dtypes of the reader) filled
    with the layout's header values; the species and cell headers are only
    used for their sizes"""
    g = lambda n: getattr(holder, '_uamiv__' + n)  # noqa
    me = type('S', (), {})()
    eh = np.zeros(1, g('emiss_hdr_fmt'))
    eh['name'][0, :, :] = b' '
    eh['name'][0, :, 0] = np.array(lay.fname.ljust(10), dtype='c')
    eh['note'][0, :, :] = b' '
    eh['nspec'] = lay.nspec
    eh['SPAD'] = eh['EPAD'] = eh.dtype.itemsize - 8
    gh = np.zeros(1, g('grid_hdr_fmt'))
    gh['nx'], gh['ny'], gh['nz'] = int(lay.nx), int(lay.ny), lay.nz
    gh['SPAD'] = gh['EPAD'] = gh.dtype.itemsize - 8
    me._uamiv__rffile = 'symbolic-length-file'
    me._uamiv__mode = 'r'
    me._uamiv__emiss_hdr = eh
    me._uamiv__grid_hdr = gh
    me._uamiv__cell_hdr = FakeMap(g('cell_hdr_fmt'), 1)
    me._uamiv__spc_hdr = FakeMap(g('spc_fmt'), lay.nspec)
    return me


class CutUamiv(Obligation):
    mode = 'int'
    validate_paths = 6
    stubs = ('np.memmap (documented contract)',)
    encoding_fragile = True          # AST slice of uamiv.__readheader

    def fallback_inputs(self):
        T = self.p[4] or 3
        lay = self._layout(T)
        H, B, full = int(lay.H), int(lay.B), int(lay.H + T * lay.B)
        cuts = [H, H + 1, H + 4, H + B - 4, H + B, H + B + 4, H + B + 24,
                full - B, full - 4, full - 1]
        return [{'L': c, 'T': T} for c in sorted(set(cuts))
                if H <= c < full]

    def __init__(self, nspec, nz, ny, nx, T, fname='AVERAGE'):
        self.p = (nspec, nz, ny, nx, T)
        self.fname = fname.ljust(10)
        self.name = 'cut-uamiv[nspec=%d,nz=%d,ny=%d,nx=%d,T=%s]' % self.p
        if fname != 'AVERAGE':
            self.name = self.name[:-1] + ',%s]' % fname
        self.bounds = {'nspec': nspec, 'nz': nz, 'ny': ny, 'nx': nx, 'T': T,
                       'L': 'unbounded in [H, full)'}
        self._kernel = None

    def kernel(self):
        if self._kernel is None:
            import ast
            sp = loader.TwinSpace()
            mm = sp.twin('PseudoNetCDF.camxfiles.uamiv.Memmap')

            def dim(key):
                def m(c):
                    if isinstance(c.func, ast.Attribute) and \
                            c.func.attr == 'createDimension' and \
                            len(c.args) == 2 and \
                            isinstance(c.args[0], ast.Constant) and \
                            c.args[0].value == key:
                        return c.args[1]
                return m

            def data_offset(c):
                # the last memmap(...) call maps the time-dependent part:
                # its offset is where the data start
                f = c.func
                nm = f.id if isinstance(f, ast.Name) else getattr(
                    f, 'attr', None)
                kw = dict((k.arg, k.value) for k in c.keywords)
                if nm == 'memmap' and 'offset' in kw:
                    return kw['offset']        # the last such call wins
            # observable results instead of local names: the slice follows
            # the data flow into these calls, whatever the locals are called
            run, info = loader.slice_kernel(
                'PseudoNetCDF.camxfiles.uamiv.Memmap',
                'uamiv._uamiv__readheader'.replace('_uamiv__', '__'), [],
                space=sp, provided=['self', 'open'],
                outputs={'out_ntimes': dim('TSTEP'), 'out_nz': dim('LAY'),
                         'out_nx': dim('COL'), 'out_ny': dim('ROW'),
                         'out_nspec': dim('VAR'),
                         'out_offset': data_offset})
            holder = type('S', (), {})()
            mm.uamiv._make_header_fmt(holder, '>')
            self._kernel = (run, info, holder, sp)
        return self._kernel

    TMAX = 50000

    def _layout(self, T=None):
        nspec, nz, ny, nx, T0 = self.p
        lay = layouts.UamivLayout(nspec, nz, 1, nx * ny, nx, ny, 2001, 0, 1,
                                  24, name=self.fname)
        lay.T = T if T is not None else T0
        lay.length = lay.H + lay.T * lay.B
        return lay

    def sym(self, ctx, h):
        nspec, nz, ny, nx, T = self.p
        run, info, holder, sp = self.kernel()
        self._space = None
        if T is None:
            T = ctx.int('T', 1, self.TMAX)
        lay = self._layout(T)
        L = ctx.int('L', lay.H)
        ctx.assume(symx._b(L <= lay.length - 1), check=False)
        me = header_maps(holder, lay)
        env = dict(sp.twin('PseudoNetCDF.camxfiles.uamiv.Memmap').__dict__)
        env.update({'self': me, 'open': lambda *a, **k: SizedFile(L)})
        raised = None
        try:
            out = run(env)
        except ValueError as ex:
            raised = str(ex)[:60]
        h.observe('raised', raised is not None)
        if not hasattr(self, '_info'):
            self._info = info
        if raised is not None:
            # raising is always acceptable for a proper prefix
            h.claim('raises-on-partial', z3.BoolVal(True))
            return
        off, nt = out['out_offset'], out['out_ntimes']
        if bool(nt == 0):
            # np.memmap contract: mapping zero bytes raises ValueError
            h.observe('raised', True)
            h.claim('raises-on-partial', z3.BoolVal(True))
            return
        h.observe('ntimes', nt)
        h.claim('header-offset-matches-layout', symx._b(off == lay.H))
        h.claim('whole-steps-only', symx._b(lay.H + nt * lay.B == L))
        h.claim('steps-fit', z3.And(symx._b(nt >= 0), symx._b(nt < T)))

    def real(self, inputs):
        import shutil
        import warnings
        nspec, nz, ny, nx, T = self.p
        if T is None:
            T = int(frac_of(inputs.get('T', 2)))
        lay = layouts.UamivLayout(nspec, nz, T, nx * ny, nx, ny, 2001, 0, 1,
                                  24, name=self.fname)
        L = int(frac_of(inputs.get('L', lay.H)))
        viol = {}
        d = tempfile.mkdtemp(prefix='verif_c14_')
        full = os.path.join(d, 'full.uamiv')
        cut = os.path.join(d, 'cut.uamiv')
        obs = {}
        try:
            data = lay.write_real(full)
            with open(full, 'rb') as f:
                blob = f.read()
            with warnings.catch_warnings():
                warnings.simplefilter('ignore')
                from PseudoNetCDF.camxfiles.uamiv.Memmap import uamiv as MM
                for mode in ('r', 'r+'):
                    with open(cut, 'wb') as f:
                        f.write(blob[:L])
                    raised = False
                    nt = None
                    try:
                        mm = MM(cut, mode=mode)
                        nt = len(mm.dimensions['TSTEP'])
                        vals = dict((k.strip(), np.array(
                            mm.variables[k.strip()][:]))
                            for k in lay.spcnames)
                        del mm
                    except Exception:
                        raised = True
                    if mode == 'r':
                        obs = {'raised': raised}
                        if not raised:
                            obs['ntimes'] = nt
                    if raised:
                        continue
                    if lay.H + nt * lay.B > L:
                        viol['whole-steps-only'] = \
                            'mode=%s: %d steps exposed but the file has ' \
                            'only %d bytes' % (mode, nt, L)
                    for si, sn in enumerate(lay.spcnames):
                        got = vals[sn.strip()]
                        exp = data[:nt, si]
                        if got.shape != exp.shape or \
                                not np.array_equal(got, exp):
                            viol['whole-steps-only'] = \
                                'mode=%s: exposed data differ from the ' \
                                'full file' % mode
        finally:
            shutil.rmtree(d, ignore_errors=True)
        return {'obs': obs, 'violations': viol, 'L': L, 'T': T}

    any_violation_confirms = True


def obligations(tier):
    obs = []
    grids = [(1, 1, 1, 1, 2), (2, 1, 1, 2, 2), (1, 2, 2, 1, 3),
             (2, 2, 2, 3, 2)]
    if tier == 'thorough':
        grids += [(3, 2, 3, 4, 4), (1, 1, 5, 7, 5), (4, 3, 2, 2, 3)]
    for g in grids:
        obs.append(CutUamiv(*g))
    # unbounded number of steps (multi-MB files): T symbolic
    obs.append(CutUamiv(1, 1, 1, 1, None))
    obs.append(CutUamiv(2, 1, 1, 2, None))
    # the other file kinds of the same layout (name field of the header)
    obs.append(CutUamiv(1, 2, 2, 1, 3, 'EMISSIONS'))
    obs.append(CutUamiv(2, 1, 1, 2, 2, 'AIRQUALITY'))
    if tier == 'thorough':
        obs.append(CutUamiv(1, 5, 1, 5, 2, 'EMISSIONS'))
        obs.append(CutUamiv(2, 3, 2, 2, 2, 'INSTANT'))
    obs += metmap.cut_obligations(tier)
    return obs
